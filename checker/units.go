package main

import (
	"fmt"
	"go/constant"
	"go/token"
	"go/types"
	"sort"
	"strings"
	"time"

	"golang.org/x/tools/go/ssa"
)

// Units-of-measure analysis over SSA (P9): an abstract interpretation that gives every integer / decimal value
// a time unit vector over the three scales the code base uses (ns, ms, s). Scales are treated as different base
// units, so mixing them is a unit error exactly like adding metres to feet:
//
//	t.UnixNano(), t.Sub(u), time.Duration values and fields, int64(Duration)   ns
//	t.UnixMilli(), d.Milliseconds()                                               ms
//	t.Unix()                                                                      s
//	math.Int / sdk.Dec amounts, counters, message fields                          dimensionless (1)
//	untyped / plain integer constants                                             polymorphic (take the other operand's unit)
//
// +, -, comparisons and phi require equal units; * adds and / subtracts exponents (Dec.Mul*, Dec.Quo* likewise);
// a conversion to time.Duration and the argument of Time.Add require ns. The rule that uses it demands that the
// value a schedule formula returns is dimensionless (an amount, or a ratio of two equal units), with no mismatch
// on the way. Module callees are evaluated with the units of their arguments (depth <= 3).

type unit struct {
	ns, ms, s int
	poly      bool // a constant: adopts the unit of whatever it is combined with additively
	unknown   bool // not derived (external call result of unknown kind, ...)
}

func (u unit) String() string {
	if u.unknown {
		return "?"
	}
	if u.poly {
		return "const"
	}
	var parts []string
	for _, p := range []struct {
		n string
		e int
	}{{"ns", u.ns}, {"ms", u.ms}, {"s", u.s}} {
		if p.e != 0 {
			parts = append(parts, fmt.Sprintf("%s^%d", p.n, p.e))
		}
	}
	if len(parts) == 0 {
		return "1"
	}
	return strings.Join(parts, "*")
}

func (u unit) same(v unit) bool { return u.ns == v.ns && u.ms == v.ms && u.s == v.s }

var (
	uOne  = unit{}
	uNs   = unit{ns: 1}
	uMs   = unit{ms: 1}
	uS    = unit{s: 1}
	uPoly = unit{poly: true}
	uUnk  = unit{unknown: true}
)

type unitIssue struct {
	Pos  token.Pos
	What string
}

type unitEval struct {
	w      *World
	issues []unitIssue
	seenIs map[string]bool
	nvals  int
}

func (e *unitEval) issue(pos token.Pos, format string, a ...interface{}) {
	msg := fmt.Sprintf(format, a...)
	k := fmt.Sprintf("%d:%s", pos, msg)
	if e.seenIs == nil {
		e.seenIs = map[string]bool{}
	}
	if e.seenIs[k] {
		return
	}
	e.seenIs[k] = true
	e.issues = append(e.issues, unitIssue{pos, msg})
}

type unitFrame struct {
	e     *unitEval
	fn    *ssa.Function
	args  map[*ssa.Parameter]unit
	memo  map[ssa.Value]unit
	busy  map[ssa.Value]bool
	depth int
}

func isDurationType(t types.Type) bool {
	return strings.HasSuffix(typeString(t), "time.Duration")
}

// additive combination: equal units required; constants adopt the other side.
func (f *unitFrame) additive(pos token.Pos, op string, a, b unit) unit {
	switch {
	case a.unknown || b.unknown:
		if a.unknown && !b.unknown && !b.poly {
			return b
		}
		if b.unknown && !a.unknown && !a.poly {
			return a
		}
		return uUnk
	case a.poly && b.poly:
		return uPoly
	case a.poly:
		return b
	case b.poly:
		return a
	}
	if !a.same(b) {
		f.e.issue(pos, "%s combines a value in [%s] with a value in [%s]", op, a, b)
		return a
	}
	return a
}

func mulUnit(a, b unit, sign int) unit {
	if a.unknown || b.unknown {
		return uUnk
	}
	if a.poly && b.poly {
		return uPoly
	}
	// a constant factor is a pure number
	if a.poly {
		a = uOne
	}
	if b.poly {
		b = uOne
	}
	return unit{ns: a.ns + sign*b.ns, ms: a.ms + sign*b.ms, s: a.s + sign*b.s}
}

// constUnit: a constant of type time.Duration is in ns; other constants are polymorphic.
func constUnit(c *ssa.Const) unit {
	if isDurationType(c.Type()) {
		if c.Value != nil && constant.Sign(c.Value) == 0 {
			return uPoly
		}
		return uNs
	}
	// the annualisation constant folded into a plain integer: its value says which scale it is in
	if c.Value != nil && c.Value.Kind() == constant.Int {
		if v, ok := constant.Int64Val(c.Value); ok {
			const yearS = int64(365 * 24 * 3600)
			switch v {
			case yearS * 1e9:
				return uNs
			case yearS * 1e3:
				return uMs
			case yearS:
				return uS
			}
		}
	}
	return uPoly
}

func (f *unitFrame) of(v ssa.Value) unit {
	if u, ok := f.memo[v]; ok {
		return u
	}
	if f.busy[v] {
		return uPoly // loop-carried: neutral element until the fixpoint of the other edges
	}
	f.busy[v] = true
	u := f.compute(v)
	delete(f.busy, v)
	f.memo[v] = u
	f.e.nvals++
	return u
}

func (f *unitFrame) compute(v ssa.Value) unit {
	switch x := v.(type) {
	case *ssa.Const:
		return constUnit(x)
	case *ssa.Parameter:
		if u, ok := f.args[x]; ok {
			return u
		}
		if isDurationType(x.Type()) {
			return uNs
		}
		return uOne
	case *ssa.Convert:
		u := f.of(x.X)
		if isDurationType(x.Type()) && !isDurationType(x.X.Type()) {
			if !u.unknown && !u.poly && !u.same(uNs) {
				f.e.issue(x.Pos(), "a value in [%s] is converted to time.Duration (nanoseconds)", u)
			}
			return uNs
		}
		return u
	case *ssa.ChangeType:
		return f.of(x.X)
	case *ssa.BinOp:
		a, b := f.of(x.X), f.of(x.Y)
		switch x.Op {
		case token.ADD, token.SUB:
			return f.additive(x.Pos(), "'"+x.Op.String()+"'", a, b)
		case token.MUL:
			return mulUnit(a, b, +1)
		case token.QUO:
			// integer rescaling of a duration (d / time.Minute) truncates: what follows no longer sees the
			// sub-unit part, and a short duration becomes zero
			if c, ok := x.Y.(*ssa.Const); ok && isDurationType(c.Type()) && c.Value != nil && a.same(uNs) && !a.poly && !a.unknown {
				if v, exact := constant.Int64Val(c.Value); exact && v > 1 {
					f.e.issue(x.Pos(), "a duration is cut down to whole multiples of %s by integer division before it is used", time.Duration(v))
				}
			}
			return mulUnit(a, b, -1)
		case token.REM:
			f.additive(x.Pos(), "'%'", a, b)
			return a
		case token.LSS, token.LEQ, token.GTR, token.GEQ, token.EQL, token.NEQ:
			f.additive(x.Pos(), "comparison '"+x.Op.String()+"'", a, b)
			return uOne
		}
		return uUnk
	case *ssa.UnOp:
		if x.Op == token.MUL {
			// load: a Duration-typed location is ns; everything else is a pure number / amount
			if isDurationType(x.Type()) {
				return uNs
			}
			// a local's stored value
			if al, ok := x.X.(*ssa.Alloc); ok {
				var u unit = uPoly
				first := true
				for _, ref := range *al.Referrers() {
					if st, ok := ref.(*ssa.Store); ok && st.Addr == ssa.Value(al) {
						su := f.of(st.Val)
						if first {
							u, first = su, false
						} else {
							u = f.additive(st.Pos(), "assignment", u, su)
						}
					}
				}
				return u
			}
			return uOne
		}
		return f.of(x.X)
	case *ssa.Phi:
		var u unit = uPoly
		for _, ed := range x.Edges {
			u = f.additive(x.Pos(), "merge of alternatives", u, f.of(ed))
		}
		return u
	case *ssa.Extract:
		return f.of(x.Tuple)
	case *ssa.Call:
		return f.call(x)
	case *ssa.FieldAddr, *ssa.IndexAddr, *ssa.Alloc:
		return uOne
	case *ssa.MakeInterface:
		return f.of(x.X)
	}
	return uUnk
}

func (f *unitFrame) call(c *ssa.Call) unit {
	name := callName(c.Common())
	args := c.Common().Args
	recvArg := func() ssa.Value {
		if c.Common().IsInvoke() {
			return c.Common().Value
		}
		if len(args) > 0 {
			return args[0]
		}
		return nil
	}
	last := func() unit { return f.of(args[len(args)-1]) }
	switch {
	case strings.HasSuffix(name, "time.Duration.Milliseconds"), strings.HasSuffix(name, "time.Duration.Seconds"), strings.HasSuffix(name, "time.Duration.Microseconds"), strings.HasSuffix(name, "time.Duration.Minutes"), strings.HasSuffix(name, "time.Duration.Hours"):
		// a duration (already an exact number of nanoseconds) rendered in a coarser scale: the sub-unit part is dropped,
		// exactly like d / time.Millisecond - what follows no longer sees it, and a short duration becomes zero. (Instants
		// rendered with UnixMilli on both sides of a difference are the documented resolution of the linear formula and
		// are not affected.)
		{
			short := name[strings.LastIndex(name, ".")+1:]
			f.e.issue(c.Pos(), "a duration is cut down to whole units by Duration.%s() before it is used: the part below that resolution is lost", short)
		}
		switch {
		case strings.HasSuffix(name, "Milliseconds"):
			return uMs
		case strings.HasSuffix(name, "Seconds"):
			return uS
		}
		return uUnk
	case strings.HasSuffix(name, "time.Time.UnixMilli"):
		return uMs
	case strings.HasSuffix(name, "time.Time.UnixNano"), strings.HasSuffix(name, "time.Time.Sub"), strings.HasSuffix(name, "time.Duration.Nanoseconds"), strings.HasSuffix(name, "time.Since"):
		return uNs
	case strings.HasSuffix(name, "time.Time.Unix"):
		return uS
	case strings.HasSuffix(name, "time.Time.UnixMicro"):
		return uUnk
	case strings.HasSuffix(name, "time.Time.Add"):
		u := last()
		if !u.unknown && !u.poly && !u.same(uNs) {
			f.e.issue(c.Pos(), "Time.Add receives a value in [%s] (it takes nanoseconds)", u)
		}
		return uOne
	}
	// sdk.Dec / math.Int arithmetic
	if strings.Contains(name, "types.Dec.") || strings.Contains(name, "math.Int.") || strings.Contains(name, "math.LegacyDec.") {
		m := name[strings.LastIndex(name, ".")+1:]
		r := recvArg()
		var ru unit = uOne
		if r != nil {
			ru = f.of(r)
		}
		switch {
		case strings.HasPrefix(m, "Mul"):
			return mulUnit(ru, last(), +1)
		case strings.HasPrefix(m, "Quo"):
			return mulUnit(ru, last(), -1)
		case m == "Add" || m == "Sub" || m == "AddRaw" || m == "SubRaw":
			return f.additive(c.Pos(), "Dec/Int "+m, ru, last())
		case m == "LT" || m == "LTE" || m == "GT" || m == "GTE" || m == "Equal":
			f.additive(c.Pos(), "comparison "+m, ru, last())
			return uOne
		case m == "TruncateInt" || m == "TruncateDec" || m == "RoundInt" || m == "Ceil" || m == "Neg" || m == "Abs" || m == "ToDec" || m == "Int64" || m == "TruncateInt64" || m == "RoundInt64":
			return ru
		case strings.HasPrefix(m, "Is"):
			return uOne
		}
		return uUnk
	}
	switch {
	case strings.HasSuffix(name, "types.NewDecFromInt"), strings.HasSuffix(name, "types.NewDec"), strings.HasSuffix(name, "types.NewInt"), strings.HasSuffix(name, "math.NewInt"), strings.HasSuffix(name, "types.NewDecFromIntWithPrec"):
		return f.of(args[0])
	case strings.HasSuffix(name, "types.ZeroDec"), strings.HasSuffix(name, "types.ZeroInt"), strings.HasSuffix(name, "types.OneDec"), strings.HasSuffix(name, "types.OneInt"):
		return uPoly
	}
	// module callee: evaluate with the units of the arguments
	if callee := c.Common().StaticCallee(); callee != nil && callee.Blocks != nil && f.depth < 3 && strings.HasPrefix(callee.String(), "") && f.e.w.isProdFunc(callee) {
		sub := &unitFrame{e: f.e, fn: callee, args: map[*ssa.Parameter]unit{}, memo: map[ssa.Value]unit{}, busy: map[ssa.Value]bool{}, depth: f.depth + 1}
		for i, p := range callee.Params {
			if i < len(args) {
				sub.args[p] = f.of(args[i])
			}
		}
		return sub.result()
	}
	if isDurationType(c.Type()) {
		return uNs
	}
	return uUnk
}

// result: the unit of result #0 over all returns.
func (f *unitFrame) result() unit {
	var u unit = uPoly
	for _, ret := range Returns(f.fn) {
		rv := retVals(ret)
		if len(rv) == 0 {
			continue
		}
		u = f.additive(ret.Pos(), "alternative results", u, f.of(rv[0]))
	}
	// also walk every instruction so that mismatches off the result's slice (guards, loop bounds) are seen
	for _, b := range f.fn.Blocks {
		for _, in := range b.Instrs {
			if v, ok := in.(ssa.Value); ok {
				switch v.(type) {
				case *ssa.BinOp, *ssa.Call, *ssa.Convert, *ssa.Phi:
					f.of(v)
				}
			}
		}
	}
	return u
}

// unitsRule checks that fn returns a dimensionless value and that no unit mismatch occurs inside it.
func unitsRule(w *World, r *Report, rule string, fn *ssa.Function, what string) {
	e := &unitEval{w: w}
	f := &unitFrame{e: e, fn: fn, args: map[*ssa.Parameter]unit{}, memo: map[ssa.Value]unit{}, busy: map[ssa.Value]bool{}}
	u := f.result()
	sort.Slice(e.issues, func(i, j int) bool { return e.issues[i].Pos < e.issues[j].Pos })
	construct := funcName(fn) + ": " + what
	pos := w.Pos(fn.Pos())
	switch {
	case len(e.issues) > 0:
		var msgs []string
		for _, is := range e.issues {
			msgs = append(msgs, w.Pos(is.Pos)+": "+is.What)
		}
		r.Bad(rule, construct, w.Pos(e.issues[0].Pos), "units of time are misused: "+strings.Join(msgs, "; "))
	case u.unknown:
		r.Unk(rule, construct, pos, "the unit of the result could not be derived")
	case !u.poly && !u.same(uOne):
		r.Bad(rule, construct, pos, "the result carries the unit ["+u.String()+"]: it depends on the time scale used (an amount or rate must be a pure number)")
	default:
		r.OK(rule, construct, pos, fmt.Sprintf("result is a pure number; %d values typed, every +,-,comparison and merge combines equal time scales", e.nvals))
	}
}
