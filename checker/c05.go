package main

import (
	"fmt"
	"go/token"
	"strings"

	"golang.org/x/tools/go/ssa"
)

func init() { register("C05", checkC05) }

var ledgerFields = map[string]bool{"InitiallyLocked": true, "Sent": true, "Withdrawn": true}

func isZeroIntValue(v ssa.Value) bool {
	c, ok := v.(*ssa.Call)
	if !ok {
		return false
	}
	n := callName(c.Common())
	if hasSuffixAny(n, "types.ZeroInt", "math.ZeroInt") {
		return true
	}
	if hasSuffixAny(n, "types.NewInt", "math.NewInt") && len(c.Common().Args) == 1 {
		if k, ok := c.Common().Args[0].(*ssa.Const); ok && k.Value != nil && k.Value.ExactString() == "0" {
			return true
		}
	}
	return false
}

// unwrapCoins strips sdk.NewCoins(sdk.NewCoin(denom, amount)) and returns amount and denom.
func unwrapCoins(v ssa.Value) (amount, denom ssa.Value, ok bool) {
	seen := map[ssa.Value]bool{}
	var find func(x ssa.Value) *ssa.Call
	find = func(x ssa.Value) *ssa.Call {
		if x == nil || seen[x] {
			return nil
		}
		seen[x] = true
		switch y := x.(type) {
		case *ssa.Call:
			n := callName(y.Common())
			if strings.HasSuffix(n, "types.NewCoin") {
				return y
			}
			if strings.HasSuffix(n, "types.NewCoins") {
				for _, a := range y.Common().Args {
					if c := find(a); c != nil {
						return c
					}
				}
			}
			// a module helper that builds the coins (`singleCoin(denom, amount)`): the NewCoin it returns, in the caller's terms
			if h := y.Common().StaticCallee(); h != nil && h.Blocks != nil && !y.Common().IsInvoke() && strings.HasPrefix(pkgPathOf(h), modPath) {
				if rets := Returns(h); len(rets) == 1 && len(retVals(rets[0])) == 1 {
					if c := find(retVals(rets[0])[0]); c != nil {
						if tc, ok := translateValue(c, bindParams(h, y), 0).(*ssa.Call); ok {
							return tc
						}
					}
				}
			}
		case *ssa.Slice:
			return find(y.X)
		case *ssa.Alloc:
			for _, r := range *y.Referrers() {
				if ia, ok := r.(*ssa.IndexAddr); ok {
					for _, r2 := range *ia.Referrers() {
						if st, ok := r2.(*ssa.Store); ok {
							if c := find(st.Val); c != nil {
								return c
							}
						}
					}
				}
			}
		case *ssa.ChangeType:
			return find(y.X)
		case *ssa.UnOp:
			if y.Op == token.MUL {
				if a, ok := y.X.(*ssa.Alloc); ok {
					for _, r := range *a.Referrers() {
						if st, ok := r.(*ssa.Store); ok && st.Addr == a {
							if c := find(st.Val); c != nil {
								return c
							}
						}
					}
				}
			}
		}
		return nil
	}
	c := find(v)
	if c == nil {
		return nil, nil, false
	}
	return c.Common().Args[1], c.Common().Args[0], true
}

// accumulatorOf: acc is a loop-carried sum  acc = φ(zero, acc.Add(x)).
func accumulatorOf(acc, x ssa.Value) bool {
	phi, ok := acc.(*ssa.Phi)
	if !ok {
		return false
	}
	sawZero, sawAdd := false, false
	for _, e := range phi.Edges {
		if isZeroIntValue(e) {
			sawZero = true
			continue
		}
		if e == ssa.Value(phi) {
			continue // an iteration that skips (continue) carries the sum unchanged
		}
		c, ok := e.(*ssa.Call)
		if !ok || !strings.HasSuffix(callName(c.Common()), "math.Int.Add") {
			return false
		}
		a := c.Common().Args
		if (a[0] == phi && a[1] == x) || (a[1] == phi && a[0] == x) {
			sawAdd = true
			continue
		}
		return false
	}
	return sawZero && sawAdd
}

// increment recognises `base.F = base.F.Add(x)` and returns x.
func incrementOf(fs FieldStore) (ssa.Value, bool) {
	c, ok := fs.Store.Val.(*ssa.Call)
	if !ok || !strings.HasSuffix(callName(c.Common()), "math.Int.Add") {
		return nil, false
	}
	a := c.Common().Args
	same := func(v ssa.Value) bool {
		u, ok := v.(*ssa.UnOp)
		if !ok || u.Op != token.MUL {
			return false
		}
		fa, ok := u.X.(*ssa.FieldAddr)
		return ok && fa.Field == fs.FA.Field && (fa.X == fs.FA.X || sameLoad(fa.X, fs.FA.X))
	}
	if same(a[0]) {
		return a[1], true
	}
	if same(a[1]) {
		return a[0], true
	}
	return nil, false
}

// nonPositiveEdges: edges on which v is known to be <= 0.
func nonPositiveEdges(fn *ssa.Function, v ssa.Value) []Edge {
	return EdgesWhere(fn, func(base ssa.Value) (bool, bool) {
		c, ok := base.(*ssa.Call)
		if !ok {
			return false, false
		}
		n := callName(c.Common())
		a := c.Common().Args
		switch {
		case strings.HasSuffix(n, "math.Int.IsPositive") && a[0] == v:
			return false, true
		case strings.HasSuffix(n, "math.Int.GT") && a[0] == v && isZeroIntValue(a[1]):
			return false, true
		case strings.HasSuffix(n, "math.Int.LTE") && a[0] == v && isZeroIntValue(a[1]):
			return true, true
		case strings.HasSuffix(n, "math.Int.LT") && isZeroIntValue(a[0]) && a[1] == v:
			return false, true
		}
		return false, false
	})
}

type ledgerOp struct {
	fn    *ssa.Function
	field string
	store FieldStore
	inc   ssa.Value // increment (or initial value for a fresh pool)
	fresh bool
}

func checkC05(w *World, r *Report) {
	cg := w.CG()
	ro := w.Roles()
	r.Undecided = []string{
		"nothing numeric beyond value identity; 'a rejected message changes nothing' relies on baseapp's rollback plus C05.errprop",
		"solvency of states introduced by genesis files is delegated to C05.gen / C12",
	}
	r.Rule("C05.writers", "P4", "every writer of VestingPool.{InitiallyLocked,Sent,Withdrawn} and of the account-vesting-pools store prefix is a keeper operation reached from a message (then C05.pair applies), genesis initialisation, the v1.2.0 upgrade or a store migration; none is reachable from a query or a block routine; the one delete on the prefix is unreachable from every entry set", 8)
	r.Rule("C05.pair", "P5,P6", "each keeper operation that changes a ledger field moves coins between the owner/recipient and the cfevesting module account in the matching direction, by the same value (or its per-pool accumulator), and persists the pools only on the success edge of that transfer or where the amount is not positive; every transfer out of the module account is paired with such a ledger change", 9)
	r.Rule("C05.avail", "P5,P7", "Sent grows only where currentlyLocked(pool) >= amount (ordering table: '<' => error, '=' and '>' => proceed) and amount is not negative; Withdrawn grows only by the result of CalculateWithdrawable", 4)
	r.Rule("C05.rmwkey", "P6,P8", "read-modify-write of an owner's pools record: wherever a function both looks the record up and stores it, an Owner assigned to a freshly created record is the very expression used as lookup key (the store key is the record's Owner)", 1)
	r.Rule("C05.key", "P8", "sibling agreement on the store key of an owner's pools record: it is stored under AccAddress.String() of the owner, so every lookup on the message trees uses AccAddress.String() of a parsed address, never the owner string as spelled in the message; the pool query does the same whenever the owner parses (found F22)", 4)
	r.Rule("C05.rmw", "P4,P5", "read-modify-write isolation: between reading an owner's pool record and writing it back, an operation calls nothing that persists pool records itself (no lost update of counters that a nested operation already backed with a transfer)", 3)
	r.Rule("C05.errprop", "P5", "in cfevesting message trees every error result of a bank or keeper call is tested, and its failure edge returns a non-nil error (event-emission errors may be logged and dropped)", 10)
	r.Rule("C05.gen", "P5", "InitGenesis persists pools only after ValidateAccountsOnGenesis succeeded, which compares the sum of GetCurrentlyLocked with the module balance", 2)
	r.Rule("C05.loopvar", "P4", "the module declares a Go version with one variable per loop: no address of such a variable (or of a field of it) and no function literal over it outlives the iteration in which it was taken (stored, put into a map, flowing out of the loop, deferred, handed to a function that stores it) - otherwise the matching element silently becomes the last element; positive and negative controls", 6)
	r.Rule("C05.locked", "P6", "the currently-locked amount of a pool is InitiallyLocked minus Sent minus Withdrawn (exactly these three ledger fields), and pool validation rejects a negative value of each and of the difference", 5)
	if !ro.checkFloors(r) {
		return
	}
	c05locked(w, r)
	loopVarRule(w, r, "C05.loopvar", "cfevesting")
	modName, _ := constOf(w, "x/cfevesting/types", "ModuleName")
	poolPrefix := ""
	if sp := w.Pkg("x/cfevesting/types"); sp != nil {
		if g, ok := sp.Members["AccountVestingPoolsKeyPrefix"].(*ssa.Global); ok {
			poolPrefix, _ = w.GlobalBytes(g)
		}
	}
	if poolPrefix == "" {
		r.Unk("infra.anchor", "x/cfevesting/types.AccountVestingPoolsKeyPrefix", "", "cannot evaluate prefix")
		return
	}
	msgReach := cg.Reach(ro.MSG["cfevesting"])
	allMsgReach := cg.Reach(flatten(ro.MSG))
	qryReach := cg.Reach(flatten(ro.QRY))
	blkReach := cg.Reach(flatten(ro.BLK))
	initReach := cg.Reach(ro.INIT["cfevesting"])
	upgReach := cg.Reach(ro.UPG)
	migReach := cg.Reach(ro.MIG["cfevesting"])
	invReach := cg.Reach(flatten(ro.INV))
	vbReach := cg.Reach(flatten(ro.VB))

	// ---------- C05.writers ----------
	var ops []ledgerOp
	isPool := func(fs FieldStore) bool {
		return ledgerFields[fs.Field] && fs.Struct != nil && fs.Struct.Obj().Name() == "VestingPool" && strings.Contains(fs.Struct.Obj().Pkg().Path(), "/x/cfevesting/")
	}
	for _, f := range w.ProdFuncs() {
		for _, fs := range FieldStores(f) {
			if !isPool(fs) {
				continue
			}
			construct := fmt.Sprintf("%s writes VestingPool.%s", funcName(f), fs.Field)
			pos := w.Pos(fs.Store.Pos())
			_, inMsg := allMsgReach[f]
			_, inQry := qryReach[f]
			_, inBlk := blkReach[f]
			_, inInv := invReach[f]
			_, inVB := vbReach[f]
			_, inInit := initReach[f]
			_, inUpg := upgReach[f]
			_, inMig := migReach[f]
			switch {
			case inQry || inBlk || inInv || inVB:
				r.Bad("C05.writers", construct, pos, "ledger field written on a query / block / invariant / ValidateBasic tree")
			case inMsg:
				_, alloc := fs.FA.X.(*ssa.Alloc)
				op := ledgerOp{fn: f, field: fs.Field, store: fs, fresh: alloc}
				if inc, ok := incrementOf(fs); ok {
					op.inc = inc
				} else if alloc {
					op.inc = fs.Store.Val
				}
				ops = append(ops, op)
				r.Enum("C05.writers", construct, pos, "keeper operation on a message tree: C05.pair applies")
			case inInit || inUpg || inMig:
				r.Enum("C05.writers", construct, pos, "genesis / upgrade / migration writer (C12, C16)")
			default:
				r.Enum("C05.writers", construct+" (unreachable from entry sets)", pos, "not reachable from any entry set")
			}
		}
		if moduleOfFunc(f) != "cfevesting" {
			continue
		}
		for _, s := range cg.Sites[f] {
			a := cg.Atom(s)
			if a != StoreSet && a != StoreDel {
				continue
			}
			loc := cg.StoreLocOf(s)
			if !loc.Resolved || !strings.HasPrefix(loc.Prefix, poolPrefix) {
				continue
			}
			construct := fmt.Sprintf("%s %s(pools prefix)", funcName(f), a)
			pos := w.Pos(s.Instr.Pos())
			_, inQry := qryReach[f]
			_, inBlk := blkReach[f]
			_, inMsg := allMsgReach[f]
			if a == StoreDel {
				_, i1 := initReach[f]
				_, i2 := upgReach[f]
				_, i3 := migReach[f]
				if inMsg || inQry || inBlk || i1 || i2 {
					r.Bad("C05.writers", construct, pos, "pools can be deleted from an entry point: the ledger would lose value held by the module account")
				} else if i3 {
					r.Enum("C05.writers", construct, pos, "delete inside a store migration (C16)")
				} else {
					r.OK("C05.writers", construct, pos, "the delete is unreachable from every entry set")
				}
				continue
			}
			if inQry || inBlk {
				r.Bad("C05.writers", construct, pos, "pools persisted on a query / block tree")
			} else {
				r.Enum("C05.writers", construct, pos, "persist helper")
			}
		}
	}

	// ---------- C05.pair ----------
	isPersist := func(s *Site) bool {
		// the persist helper itself (a callee that directly contains the store write), not a nested operation
		for _, c := range s.Callees {
			for _, x := range cg.Sites[c] {
				if cg.Atom(x) != StoreSet {
					continue
				}
				l := cg.StoreLocOf(x)
				if l.Resolved && strings.HasPrefix(l.Prefix, poolPrefix) {
					return true
				}
			}
		}
		if cg.Atom(s) == StoreSet {
			l := cg.StoreLocOf(s)
			return l.Resolved && strings.HasPrefix(l.Prefix, poolPrefix)
		}
		return false
	}
	type moveRef struct {
		inF    *Site     // the call in F (the move itself or the call leading to it)
		move   *Site     // the BANK.move atom
		amount ssa.Value // amount in F's value space (nil if unresolved)
	}
	movesOf := func(f *ssa.Function) []moveRef {
		var out []moveRef
		for _, s := range cg.Sites[f] {
			if cg.Atom(s) == BankMove {
				am, _, _ := unwrapCoins(coinsArg(s))
				out = append(out, moveRef{s, s, am})
				continue
			}
			for _, c := range s.Callees {
				if c == f {
					continue
				}
				for _, ms := range cg.Sites[c] {
					if cg.Atom(ms) != BankMove {
						continue
					}
					am, _, ok := unwrapCoins(coinsArg(ms))
					var inF ssa.Value
					if ok {
						if p, isP := am.(*ssa.Parameter); isP {
							for i, pp := range c.Params {
								if pp == p && i < len(s.Common().Args) {
									inF = s.Common().Args[i]
								}
							}
						}
					}
					out = append(out, moveRef{s, ms, inF})
				}
			}
		}
		return out
	}
	pairedMoves := map[*Site]bool{}
	doneOp := map[string]bool{}
	for _, op := range ops {
		if _, ok := msgReach[op.fn]; !ok {
			continue
		}
		key := funcName(op.fn) + "/" + op.field
		construct := fmt.Sprintf("%s: VestingPool.%s", funcName(op.fn), op.field)
		pos := w.Pos(op.store.Store.Pos())
		if op.inc == nil {
			r.Bad("C05.pair", construct+" overwritten", pos, "ledger field assigned something that is not field.Add(x) on an existing pool")
			continue
		}
		if op.fresh && op.field != "InitiallyLocked" {
			r.Check(isZeroIntValue(op.inc), "C05.pair", construct+" of a fresh pool is zero", pos, "new pool starts with zero", "a fresh pool starts with a non-zero "+op.field)
			continue
		}
		if doneOp[key] {
			r.Bad("C05.pair", construct+" written twice", pos, "the same ledger field is changed at two sites of one operation")
			continue
		}
		doneOp[key] = true
		wantMethod := "SendCoinsFromModuleToAccount"
		if op.field == "InitiallyLocked" {
			wantMethod = "SendCoinsFromAccountToModule"
		}
		var match *moveRef
		for _, m := range movesOf(op.fn) {
			m := m
			if m.move.Method != wantMethod {
				continue
			}
			names := w.bankStringArgs(m.move)
			if len(names) != 1 || len(names[0]) != 1 || names[0][0] != modName {
				continue
			}
			if m.amount != nil && (m.amount == op.inc || accumulatorOf(m.amount, op.inc)) {
				match = &m
				break
			}
		}
		if match == nil {
			r.Bad("C05.pair", construct+" paired with a transfer of the same value", pos, "no "+wantMethod+"(cfevesting) in this operation moves the value by which the ledger field changes")
			continue
		}
		pairedMoves[match.move] = true
		how := "same SSA value"
		if match.amount != op.inc {
			how = "loop-carried accumulator of exactly the per-pool values"
		}
		r.OK("C05.pair", construct+" paired with a transfer of the same value", pos, wantMethod+" at "+w.Pos(match.move.Instr.Pos())+"; amount: "+how)
		// the converse: a positive amount IS moved - assuming the amount positive, no return that may report success is
		// reached without passing the transfer (a second condition in front of it, e.g. "fits an int64", would report a
		// withdrawal that never happened, or book a change that no coins back)
		{
			amt := match.amount
			positive := func(base ssa.Value) (bool, bool) {
				c, isC := base.(*ssa.Call)
				if !isC || len(c.Common().Args) == 0 || c.Common().Args[0] != amt {
					return false, false
				}
				n := callName(c.Common())
				a := c.Common().Args
				switch {
				case strings.HasSuffix(n, "math.Int.IsPositive"):
					return true, true
				case strings.HasSuffix(n, "math.Int.GT") && len(a) > 1 && isZeroIntValue(a[1]):
					return true, true
				case strings.HasSuffix(n, "math.Int.IsZero"), strings.HasSuffix(n, "math.Int.IsNegative"):
					return false, true
				case strings.HasSuffix(n, "math.Int.LTE") && len(a) > 1 && isZeroIntValue(a[1]):
					return false, true
				}
				return false, false
			}
			live := ReachUnder(op.fn, positive)
			// (the transfer may be made at several alternative sites, e.g. one per branch of a flag)
			xbs := map[*ssa.BasicBlock]bool{match.inF.Instr.Block(): true}
			for _, m := range movesOf(op.fn) {
				if m.move.Method == wantMethod && m.amount != nil && (m.amount == op.inc || accumulatorOf(m.amount, op.inc)) {
					xbs[m.inF.Instr.Block()] = true
				}
			}
			skipped := ""
			seen := map[*ssa.BasicBlock]bool{}
			stack := []*ssa.BasicBlock{op.fn.Blocks[0]}
			for len(stack) > 0 {
				b := stack[len(stack)-1]
				stack = stack[:len(stack)-1]
				if seen[b] || xbs[b] {
					continue
				}
				seen[b] = true
				if ret, isRet := b.Instrs[len(b.Instrs)-1].(*ssa.Return); isRet && !FailsFrom(b) && instrReachableFrom(op.store.Store, ret) {
					skipped = w.Pos(ret.Pos())
				}
				for si, sc := range b.Succs {
					if live.Edges[Edge{b, si}] {
						stack = append(stack, sc)
					}
				}
			}
			r.Check(skipped == "", "C05.pair", construct+": a positive amount is always transferred", w.Pos(match.inF.Instr.Pos()), "with the amount positive every path from the ledger change to a successful return passes the transfer", "after the ledger change the operation can report success for a positive amount without making the transfer (return at "+skipped+")")
		}
		// persists
		np := 0
		for _, s := range cg.Sites[op.fn] {
			if !isPersist(s) {
				continue
			}
			np++
			edges := NilEdges(op.fn, errValues(op.fn, siteValue(match.inF)), true)
			edges = append(edges, nonPositiveEdges(op.fn, match.amount)...)
			ok := MustPass(op.fn, edges, s.Instr.Block()) && instrDominatesOrAfter(match.inF.Instr, s.Instr, op.fn)
			r.Check(ok, "C05.pair", construct+": persist only after the transfer succeeded", w.Pos(s.Instr.Pos()), "dominated by the nil edge of the transfer's error (or the amount is not positive)", "pools can be persisted although the transfer failed or was skipped")
			// what is persisted is the record that was modified: same record value, not re-assigned after the modification
			args := s.Args()
			pv := args[len(args)-1]
			okSame := false
			var rec ssa.Value = pv // the record: an SSA struct value, or the local it is loaded from
			if u, isLoad := pv.(*ssa.UnOp); isLoad {
				if a, isAlloc := u.X.(*ssa.Alloc); isAlloc {
					rec = a
				}
			}
			reached := false
			if op.fresh {
				// a fresh pool must have been appended to the record's pool list
				for _, fs2 := range FieldStores(op.fn) {
					if fs2.Field == "VestingPools" && derefRoot(fs2.FA.X) == rec {
						if w.Tracer().Origins(fs2.Store.Val).Values[op.store.FA.X] {
							reached = true
						}
					}
				}
			} else {
				reached = w.Tracer().Origins(op.store.FA.X).Values[rec]
			}
			reassigned := false
			if a, isAlloc := rec.(*ssa.Alloc); isAlloc {
				for _, ref := range *a.Referrers() {
					if st, isSt := ref.(*ssa.Store); isSt && st.Addr == ssa.Value(a) && instrReachableFrom(op.store.Store, st) {
						reassigned = true // a whole-record assignment that can execute after the ledger change
					}
				}
			}
			okSame = reached && !reassigned
			r.Check(okSame, "C05.pair", construct+": the record persisted is the one that was modified", w.Pos(s.Instr.Pos()), "same local record, assigned only before the ledger change", "the record written back is not (or no longer) the one whose ledger field was changed: coins move but the books do not")
		}
		if np == 0 {
			r.Bad("C05.pair", construct+": persisted", pos, "ledger change is never persisted in this operation")
		} else {
			// ... and always then: once the transfer has been made, no successful return is reached without the persist
			persistBlocks := map[*ssa.BasicBlock]bool{}
			for _, s := range cg.Sites[op.fn] {
				if isPersist(s) {
					persistBlocks[s.Instr.Block()] = true
				}
			}
			b0 := match.inF.Instr.Block()
			skipped := ""
			if !persistBlocks[b0] || !persistAfterInBlock(b0, match.inF.Instr, func(in ssa.Instruction) bool {
				for _, s := range cg.Sites[op.fn] {
					if s.Instr == in && isPersist(s) {
						return true
					}
				}
				return false
			}) {
				// the transfer is made only for a positive amount: edges on which the same amount is known not to be
				// positive cannot be taken afterwards
				infeasible := map[Edge]bool{}
				if match.amount != nil {
					np := nonPositiveEdges(op.fn, match.amount)
					var pos []Edge
					for _, e := range np {
						pos = append(pos, Edge{e.From, 1 - e.Succ})
					}
					if len(pos) > 0 && MustPass(op.fn, pos, b0) {
						for _, e := range np {
							infeasible[e] = true
						}
					}
				}
				seen := map[*ssa.BasicBlock]bool{}
				var stack []*ssa.BasicBlock
				push := func(b *ssa.BasicBlock) {
					for i, sc := range b.Succs {
						if !infeasible[Edge{b, i}] {
							stack = append(stack, sc)
						}
					}
				}
				push(b0)
				for len(stack) > 0 && skipped == "" {
					b := stack[len(stack)-1]
					stack = stack[:len(stack)-1]
					if seen[b] || persistBlocks[b] || b == op.fn.Recover {
						continue
					}
					seen[b] = true
					if len(b.Instrs) > 0 {
						if ret, isRet := b.Instrs[len(b.Instrs)-1].(*ssa.Return); isRet {
							rv := retVals(ret)
							if len(rv) == 0 || !isErrorType(rv[len(rv)-1].Type()) || isNilConst(rv[len(rv)-1]) {
								skipped = w.Pos(ret.Pos())
							}
							continue
						}
					}
					push(b)
				}
			}
			r.Check(skipped == "", "C05.pair", construct+": persisted whenever the transfer was made", pos, "every path from the transfer to a successful return passes the persist", "after the coins have moved the operation can return successfully (at "+skipped+") without persisting the ledger change: the same coins can be paid again")
		}
	}
	// every transfer out of the module account on message trees is paired
	for _, s := range cg.SitesIn(msgReach) {
		if cg.Atom(s) != BankMove || s.Method != "SendCoinsFromModuleToAccount" {
			continue
		}
		construct := "transfer out of the module account in " + funcName(s.Caller)
		r.Check(pairedMoves[s], "C05.pair", construct, w.Pos(s.Instr.Pos()), "paired with a Sent/Withdrawn change of the same value", "coins leave the vesting module account without a matching ledger change")
	}

	// ---------- C05.avail ----------
	c05avail(w, r, ops)
	// ---------- C05.rmw ----------
	// read-modify-write of an owner's pools is not interleaved with another writer of the same records: between the
	// read of the record and its write-back no call may reach a persist of pool records (a nested operation that loads
	// its own copy, changes it and stores it would be overwritten by the stale copy: coins have moved, the books have not)
	{
		nr := 0
		for fn := range cg.Reach(ro.MSG["cfevesting"]) {
			if !w.isProdFunc(fn) {
				continue
			}
			var reads, writes []*Site
			for _, s := range cg.Sites[fn] {
				if calleeIs(s, "x/cfevesting/keeper.Keeper.GetAccountVestingPools") {
					reads = append(reads, s)
				}
				if isPersist(s) {
					writes = append(writes, s)
				}
			}
			if len(reads) == 0 || len(writes) == 0 {
				continue
			}
			for _, g := range reads {
				for _, pw := range writes {
					if !canReach(g.Instr, pw.Instr) {
						continue
					}
					nr++
					bad := ""
					for _, c := range cg.Sites[fn] {
						if c == pw || c == g || isPersist(c) && c == pw {
							continue
						}
						if !canReach(g.Instr, c.Instr) || !canReach(c.Instr, pw.Instr) || c.Instr == g.Instr {
							continue
						}
						nested := isPersist(c)
						for _, callee := range c.Callees {
							if callee == fn {
								continue
							}
							if len(cg.targetsBelow(callee, isPersist, map[*ssa.Function]bool{})) > 0 {
								nested = true
							}
							for _, x := range cg.Sites[callee] {
								if isPersist(x) {
									nested = true
								}
							}
						}
						if nested {
							bad = c.CalleeName() + " at " + w.Pos(c.Instr.Pos())
						}
					}
					r.Check(bad == "", "C05.rmw", funcName(fn)+": no other writer of pool records between the read and the write-back", w.Pos(pw.Instr.Pos()), "read ... modify ... write without a nested persist", "between reading the owner's pools and writing them back the operation calls "+bad+", which persists pool records itself: whatever that call changed (withdrawn counters after coins were paid) is overwritten by the stale copy")
				}
			}
		}
		r.Check(nr >= 2, "C05.rmw", "read-modify-write operations on pool records found", "", fmt.Sprintf("%d read/write-back pairs", nr), fmt.Sprintf("only %d read/write-back pairs found", nr))
	}
	// ---------- C05.rmwkey ----------
	// read-modify-write of an owner's pools: the record is stored under its Owner field; a record created because the
	// lookup missed must carry the very key that was looked up, or the owner's existing record is overwritten
	{
		nrmw := 0
		for fn := range cg.Reach(ro.MSG["cfevesting"]) {
			if !w.isProdFunc(fn) {
				continue
			}
			var key ssa.Value
			hasSet := false
			for _, s := range cg.Sites[fn] {
				if calleeIs(s, "x/cfevesting/keeper.Keeper.GetAccountVestingPools") {
					a := s.Args()
					key = a[len(a)-1]
				}
				if calleeIs(s, "x/cfevesting/keeper.Keeper.SetAccountVestingPools") {
					hasSet = true
				}
			}
			if key == nil || !hasSet {
				continue
			}
			for _, fs := range FieldStores(fn) {
				if fs.Field != "Owner" || !namedIs(fs.Struct, "x/cfevesting/types", "AccountVestingPools") {
					continue
				}
				nrmw++
				r.Check(sameExpr(fs.Store.Val, key, 0), "C05.rmwkey", funcName(fn)+": a record created on a lookup miss is keyed by the key looked up", w.Pos(fs.Store.Pos()),
					"Owner := the lookup key (same expression)", "the pools are looked up under one rendering of the owner and a new record is stored under another: when the two differ (bech32 is case-insensitive) the owner's existing record is overwritten and its pools' coins stay in the module account unrecorded")
			}
		}
		_ = nrmw
	}
	// ---------- C05.key ----------
	poolKeyRule(w, r, "C05.key")
	// ---------- C05.errprop ----------
	c05errprop(w, r, msgReach)
	// ---------- C05.gen ----------
	c05gen(w, r, isPersist)
}

// instrDominatesOrAfter: the persist is not placed before the transfer (the transfer's call, when both are on one path, comes first).
func instrDominatesOrAfter(transfer, persist ssa.Instruction, fn *ssa.Function) bool {
	if instrDominates(persist, transfer) {
		return false
	}
	return true
}

func c05avail(w *World, r *Report, ops []ledgerOp) {
	for _, op := range ops {
		if op.fresh || op.inc == nil {
			continue
		}
		fn := op.fn
		switch op.field {
		case "Sent":
			// terms: available = GetCurrentlyLocked(pool) of the same pool pointer; amount = op.inc
			term := func(v ssa.Value) string {
				if v == op.inc {
					return "amount"
				}
				if c, ok := isCallTo(v, "VestingPool.GetCurrentlyLocked"); ok {
					if c.Common().Args[0] == op.store.FA.X {
						return "available"
					}
				}
				if isZeroIntValue(v) {
					return "zero"
				}
				return ""
			}
			for s := -1; s <= 1; s++ {
				live := ReachUnder(fn, OrderEval(term, twoTermCmp("available", "amount", s), nil))
				reached := live.LiveInstr(op.store.Store)
				construct := fmt.Sprintf("%s: Sent += amount with available %s amount", funcName(fn), map[int]string{-1: "<", 0: "==", 1: ">"}[s])
				if s < 0 {
					r.Check(!reached, "C05.avail", construct, w.Pos(op.store.Store.Pos()), "store unreachable when the pool holds less than the amount", "Sent can grow beyond what is locked in the pool")
				} else {
					r.Check(reached, "C05.avail", construct, w.Pos(op.store.Store.Pos()), "store reachable: the exact remainder can be sent", "a request within the locked amount is rejected")
				}
			}
			// amount negative is rejected: some call on the path whose success edge dominates the store returns an error under amount<0
			okNeg := false
			cg := w.CG()
			for _, s := range cg.Sites[fn] {
				call := siteValue(s)
				if call == nil || len(s.Callees) != 1 {
					continue
				}
				callee := s.Callees[0]
				// amount passed?
				pi := -1
				for i, a := range s.Common().Args {
					if a == op.inc && i < len(callee.Params) {
						pi = i
					}
				}
				if pi < 0 || !OnSuccessEdge(fn, op.store.Store, call) {
					continue
				}
				p := callee.Params[pi]
				live := ReachUnder(callee, func(base ssa.Value) (bool, bool) {
					c, ok := base.(*ssa.Call)
					if !ok {
						return false, false
					}
					n := callName(c.Common())
					a := c.Common().Args
					isP := func(v ssa.Value) bool { return v == p || rootParam(v) == p.Name() }
					switch {
					case strings.HasSuffix(n, "math.Int.IsNegative") && isP(a[0]):
						return true, true
					case strings.HasSuffix(n, "math.Int.IsNil") && isP(a[0]):
						return false, true
					case strings.HasSuffix(n, "math.Int.IsPositive") && isP(a[0]):
						return false, true
					case strings.HasSuffix(n, "math.Int.LT") && isP(a[0]) && isZeroIntValue(a[1]):
						return true, true
					case strings.HasSuffix(n, "math.Int.LTE") && isP(a[0]) && isZeroIntValue(a[1]):
						return true, true
					case strings.HasSuffix(n, "math.Int.GTE") && isP(a[0]) && isZeroIntValue(a[1]):
						return false, true
					case strings.HasSuffix(n, "math.Int.GT") && isP(a[0]) && isZeroIntValue(a[1]):
						return false, true
					}
					return false, false
				})
				allErr := true
				nret := 0
				for _, ret := range Returns(callee) {
					if !live.Blocks[ret.Block()] {
						continue
					}
					nret++
					rv := retVals(ret)
					if !nonNilAt(rv[len(rv)-1], ret.Block(), 0) {
						allErr = false
					}
				}
				if nret > 0 && allErr {
					okNeg = true
				}
			}
			r.Check(okNeg, "C05.avail", funcName(fn)+": negative amount rejected before Sent changes", w.Pos(op.store.Store.Pos()), "a validation call whose success edge dominates the update returns an error for a negative amount", "no validation on the path rejects a negative amount before Sent is changed")
		case "Withdrawn":
			_, ok := isCallTo(op.inc, "keeper.CalculateWithdrawable")
			r.Check(ok, "C05.avail", funcName(fn)+": Withdrawn grows by CalculateWithdrawable(now, pool)", w.Pos(op.store.Store.Pos()), "increment is the result of CalculateWithdrawable", "Withdrawn grows by a value that is not the time-lock oracle's result")
		}
	}
}

func c05errprop(w *World, r *Report, msgReach map[*ssa.Function]*ssa.Function) {
	cg := w.CG()
	for f := range msgReach {
		if !w.isProdFunc(f) || moduleOfFunc(f) != "cfevesting" {
			continue
		}
		if !strings.Contains(funcName(f), "/keeper.") {
			continue
		}
		// does f return an error?
		res := f.Signature.Results()
		retErr := res.Len() > 0 && isErrorType(res.At(res.Len()-1).Type())
		for _, s := range cg.Sites[f] {
			call := siteValue(s)
			sig := s.Common().Signature()
			if sig.Results().Len() == 0 || !isErrorType(sig.Results().At(sig.Results().Len()-1).Type()) {
				continue
			}
			atom := cg.Atom(s)
			isBank := strings.HasPrefix(atom, "BANK.")
			isKeeperCall := len(s.Callees) > 0
			if !isBank && !isKeeperCall {
				continue
			}
			if atom == EventEmit {
				continue
			}
			construct := fmt.Sprintf("%s: error of %s", funcName(f), s.Method)
			pos := w.Pos(s.Instr.Pos())
			if call == nil {
				// defer/go: result dropped
				r.Bad("C05.errprop", construct, pos, "error result of a deferred call is dropped")
				continue
			}
			ev := errValues(f, call)
			// find a test of the error
			tested := false
			good := true
			for _, b := range f.Blocks {
				i := blockIf(b)
				if i == nil {
					continue
				}
				base, _ := stripNot(i.Cond)
				bo, ok := base.(*ssa.BinOp)
				if !ok || (bo.Op != token.EQL && bo.Op != token.NEQ) {
					continue
				}
				var hit bool
				if ev[bo.X] && isNilConst(bo.Y) || ev[bo.Y] && isNilConst(bo.X) {
					hit = true
				}
				if !hit {
					continue
				}
				tested = true
			}
			// direct return of the error value also counts as propagation
			returned := false
			for _, ret := range Returns(f) {
				rv := retVals(ret)
				if len(rv) > 0 && ev[rv[len(rv)-1]] {
					returned = true
				}
			}
			if !tested && !returned {
				r.Bad("C05.errprop", construct, pos, "the error result is neither tested nor returned")
				continue
			}
			if tested && retErr {
				for _, e := range NilEdges(f, ev, false) {
					if !FailsFrom(e.To()) {
						// allowed: the error value itself is returned later on every path (err returned at the end)
						if allReturnsCarry(f, e.To(), ev) {
							continue
						}
						good = false
					}
				}
			}
			r.Check(good, "C05.errprop", construct, pos, "tested; the failure edge returns a non-nil error", "the failure edge of this error can reach a return without error: partial writes would be committed")
		}
	}
}

// allReturnsCarry: every return reachable from b returns one of the error values (or a provably non-nil error).
func allReturnsCarry(fn *ssa.Function, b *ssa.BasicBlock, ev map[ssa.Value]bool) bool {
	seen := map[*ssa.BasicBlock]bool{}
	var walk func(x *ssa.BasicBlock) bool
	walk = func(x *ssa.BasicBlock) bool {
		if seen[x] {
			return true
		}
		seen[x] = true
		switch t := x.Instrs[len(x.Instrs)-1].(type) {
		case *ssa.Panic:
			return true
		case *ssa.Return:
			rv := retVals(t)
			if len(rv) == 0 {
				return false
			}
			last := rv[len(rv)-1]
			return ev[last] || nonNilAt(last, x, 0)
		}
		for _, s := range x.Succs {
			if !walk(s) {
				return false
			}
		}
		return len(x.Succs) > 0
	}
	return walk(b)
}

func c05gen(w *World, r *Report, isPersist func(*Site) bool) {
	_ = w.CG()
	ig := w.Func("x/cfevesting.InitGenesis")
	vg := w.Func("x/cfevesting.ValidateAccountsOnGenesis")
	if ig == nil || vg == nil {
		r.Unk("infra.anchor", "x/cfevesting.InitGenesis / ValidateAccountsOnGenesis", "", "anchor not found")
		return
	}
	// the validation call and the pool persists are looked for in InitGenesis and in the helpers it calls
	var vcall *EffSite
	for _, e := range w.effectsBelow(ig, func(s *Site) bool { return calleeIs(s, "x/cfevesting.ValidateAccountsOnGenesis") }, 2) {
		e := e
		vcall = &e
	}
	if vcall == nil {
		r.Bad("C05.gen", "InitGenesis calls ValidateAccountsOnGenesis", w.Pos(ig.Pos()), "the solvency validation is not called")
		return
	}
	n := 0
	for _, e := range w.effectsBelow(ig, isPersist, 2) {
		n++
		ok := false
		// decided in the function that holds the validation call: the persist (or the call leading to it) lies on the
		// success edge of the validation
		vf := vcall.Site.Caller
		var at ssa.Instruction
		if e.Site.Caller == vf {
			at = e.Site.Instr
		} else {
			for _, c := range e.Chain {
				if c.Caller == vf {
					at = c.Instr
				}
			}
		}
		if at != nil {
			ok = OnSuccessEdge(vf, at, siteValue(vcall.Site))
		}
		// the validation itself is reached unconditionally from InitGenesis: its chain calls dominate the persist's
		ok = ok && effDominates(*vcall, e)
		r.Check(ok, "C05.gen", "InitGenesis: pools persisted only after the solvency validation succeeded", w.Pos(e.Site.Instr.Pos()),
			"dominated by the nil edge of ValidateAccountsOnGenesis (the other edge panics)", "pools are stored although the validation may have failed")
	}
	if n == 0 {
		r.Bad("C05.gen", "InitGenesis persists pools", w.Pos(ig.Pos()), "no pool persist found in InitGenesis")
	}
	// the validator: error unless sum(GetCurrentlyLocked) == balance
	found := false
	for _, b := range vg.Blocks {
		i := blockIf(b)
		if i == nil {
			continue
		}
		base, neg := stripNot(i.Cond)
		c, ok := base.(*ssa.Call)
		if !ok || !strings.HasSuffix(callName(c.Common()), "math.Int.Equal") {
			continue
		}
		o1 := w.Tracer().Origins(c.Common().Args[0])
		o2 := w.Tracer().Origins(c.Common().Args[1])
		sumSide := func(o *Origin) bool {
			return o.HasCall("VestingPool.GetCurrentlyLocked") || o.HasPath("VestingPool.InitiallyLocked")
		}
		balSide := func(o *Origin) bool { return o.HasCall("BankKeeper.GetBalance") }
		if (sumSide(o1) && balSide(o2)) || (sumSide(o2) && balSide(o1)) {
			found = true
			// unequal edge must fail
			uneq := b.Succs[1]
			if neg {
				uneq = b.Succs[0]
			}
			r.Check(FailsFrom(uneq), "C05.gen", "ValidateAccountsOnGenesis: sum of locked != module balance => error", w.Pos(c.Pos()), "the unequal edge returns a non-nil error", "a genesis whose pools are not backed by the module balance is accepted")
		}
	}
	if !found {
		r.Bad("C05.gen", "ValidateAccountsOnGenesis compares sum of locked with the module balance", w.Pos(vg.Pos()), "comparison not found")
	}
	genesisDenomRule(w, r, "C05.gen", vg)
	// the pools are stored as they were validated: no field of an imported record is rewritten on the way (= C12.verbatim)
	shareRule(w, r, checkC12, "C12.verbatim", "C05.gen", func(o Obligation) bool { return strings.Contains(o.Construct, "x/cfevesting.") })
}

// genesisDenomRule: the balance the genesis solvency validation compares is the module account's balance of the
// denomination THIS genesis document declares: on every alternative the denomination handed to the bank is
// GenesisState.Params.Denom (a default substituted for it makes the validation pass or fail for the wrong coins - an
// exported state with another denomination cannot be imported).
func genesisDenomRule(w *World, r *Report, rule string, vg *ssa.Function) {
	for _, e := range w.effectsBelow(vg, func(s *Site) bool { return cg05Atom(w, s) == BankRead && s.Method == "GetBalance" }, 2) {
		args := e.RootArgs()
		var denom ssa.Value
		for _, a := range args {
			if typeString(a.Type()) == "string" {
				denom = a
			}
		}
		okD := denom != nil
		if okD {
			alts := w.LiveValuesDeep(vg, func(ssa.Value) (bool, bool) { return false, false }, denom, 2)
			okD = len(alts) > 0
			for _, dv := range alts {
				if !loadOfField(dv.Root, "Denom", nil) || !w.Tracer().Origins(dv.Root).HasLeaf("param", ".GenesisState.Params") {
					okD = false
				}
			}
		}
		r.Check(okD, rule, "ValidateAccountsOnGenesis: the balance compared is of the genesis document's own denomination", w.Pos(e.Site.Instr.Pos()), "GetBalance(module account, genState.Params.Denom) on every alternative", "the module balance is read in a denomination that is not (always) the one the genesis document declares: the solvency check compares the pools with the wrong coins")
	}
}

func cg05Atom(w *World, s *Site) string { return w.CG().Atom(s) }

// c05locked: GetCurrentlyLocked = InitiallyLocked - Sent - Withdrawn, and VestingPool.Validate guards the ledger.
func c05locked(w *World, r *Report) {
	gl := w.Func("x/cfevesting/types.VestingPool.GetCurrentlyLocked")
	vv := w.Func("x/cfevesting/types.VestingPool.Validate")
	if gl == nil || vv == nil {
		r.Unk("infra.anchor", "x/cfevesting/types.VestingPool.GetCurrentlyLocked / Validate", "", "anchor not found")
		return
	}
	rets := Returns(gl)
	ok := len(rets) == 1
	var minuend ssa.Value
	subs := map[string]bool{}
	if ok {
		v := retVals(rets[0])[0]
		for {
			c, is := isCallTo(v, "math.Int.Sub")
			if !is {
				minuend = v
				break
			}
			a := c.Common().Args
			_, f, isF := fieldOfValue(a[1])
			if !isF {
				ok = false
				break
			}
			if subs[f] {
				ok = false // subtracted twice
			}
			subs[f] = true
			v = a[0]
		}
	}
	ok = ok && minuend != nil && loadOfField(minuend, "InitiallyLocked", nil) && len(subs) == 2 && subs["Sent"] && subs["Withdrawn"]
	r.Check(ok, "C05.locked", "GetCurrentlyLocked = InitiallyLocked - Sent - Withdrawn", w.Pos(gl.Pos()), "one minuend, exactly the two counters subtracted once each", "the locked amount of a pool is not InitiallyLocked minus Sent minus Withdrawn: pools would be over- or under-backed")
	// validation: each counter and the difference non-negative
	for _, f := range []string{"InitiallyLocked", "Sent", "Withdrawn", "(currently locked)"} {
		edges := EdgesWhere(vv, func(base ssa.Value) (bool, bool) {
			c, isC := base.(*ssa.Call)
			if !isC || !strings.HasSuffix(callName(c.Common()), "math.Int.IsNegative") {
				return false, false
			}
			a := c.Common().Args[0]
			if f == "(currently locked)" {
				if _, is := isCallTo(a, "VestingPool.GetCurrentlyLocked"); is {
					return true, true
				}
				return false, false
			}
			if loadOfField(a, f, nil) {
				return true, true
			}
			// the counters collected into a local table of (name, value) rows and tested in one loop over it: the test
			// of the row's value is the test of every value the table holds, provided every row is visited
			for _, rv := range localTableFieldValues(a) {
				if loadOfField(rv, f, nil) {
					for _, l := range loopsAround(c.Block()) {
						for x := range l.In {
							if x == l.Header {
								continue
							}
							for _, sc := range x.Succs {
								if !l.In[sc] && !FailsFrom(sc) {
									return false, false // the loop over the table can be left early
								}
							}
						}
					}
					return true, true
				}
			}
			return false, false
		})
		good := len(edges) > 0
		for _, e := range edges {
			if !FailsFrom(e.To()) {
				good = false
			}
		}
		r.Check(good, "C05.locked", "VestingPool.Validate rejects negative "+f, w.Pos(vv.Pos()), "IsNegative => error", "genesis validation accepts a pool with a negative "+f)
	}
}

// instrReachableFrom: b can execute after a on some path.
func instrReachableFrom(a, b ssa.Instruction) bool {
	if a.Block() == b.Block() {
		for _, in := range a.Block().Instrs {
			if in == a {
				// b later in the same block?
				after := false
				for _, x := range a.Block().Instrs {
					if x == a {
						after = true
						continue
					}
					if after && x == b {
						return true
					}
				}
				break
			}
		}
	}
	seen := map[*ssa.BasicBlock]bool{}
	stack := append([]*ssa.BasicBlock{}, a.Block().Succs...)
	for len(stack) > 0 {
		x := stack[len(stack)-1]
		stack = stack[:len(stack)-1]
		if seen[x] {
			continue
		}
		seen[x] = true
		if x == b.Block() {
			return true
		}
		stack = append(stack, x.Succs...)
	}
	return false
}

// poolKeyRule: every lookup of an owner's pools on the cfevesting message trees uses the canonical rendering of the address.
func poolKeyRule(w *World, r *Report, rule string) {
	cg := w.CG()
	ro := w.Roles()
	for fn := range cg.Reach(ro.MSG["cfevesting"]) {
		if !w.isProdFunc(fn) {
			continue
		}
		n := 0
		for _, s := range cg.Sites[fn] {
			if !calleeIs(s, "x/cfevesting/keeper.Keeper.GetAccountVestingPools") {
				continue
			}
			n++
			a := s.Args()
			_, ok := isCallTo(a[len(a)-1], "types.AccAddress.String")
			construct := funcName(fn) + ": pools looked up under the canonical address"
			if n > 1 {
				construct = fmt.Sprintf("%s #%d", construct, n)
			}
			r.Check(ok, rule, construct, w.Pos(s.Instr.Pos()), "AccAddress.String()", "the owner's pools are looked up under the owner string as spelled in the message; records are stored under the canonical rendering, so a differently spelled (upper-case bech32) owner is told that no pools exist")
		}
	}
	// the store accessors key a record by the owner string exactly as they are handed it: genesis validation tells
	// owners apart by that very string, so an accessor that normalises the key lets two entries of one genesis
	// document overwrite each other (their coins stay in the module account, backed by no pool)
	for _, an := range []string{"x/cfevesting/keeper.Keeper.SetAccountVestingPools", "x/cfevesting/keeper.Keeper.GetAccountVestingPools"} {
		acc := w.Func(an)
		if acc == nil {
			continue
		}
		for _, e := range w.effectsBelow(acc, func(x *Site) bool { a := cg.Atom(x); return a == StoreSet || a == StoreGet }, 2) {
			key := cg.StoreKeyOf(e.Site)
			if key == nil {
				continue
			}
			o := w.Tracer().OriginsVia(e, key, nil)
			norm := ""
			for c := range o.Calls {
				n := callName(c.Common())
				if strings.Contains(n, "Bech32") || strings.HasSuffix(n, "AccAddress.String") || strings.HasPrefix(n, "strings.To") || strings.HasPrefix(n, "strings.Trim") {
					norm = n
				}
			}
			r.Check(norm == "", rule, funcName(acc)+": the record is keyed by the owner string as given", w.Pos(e.Site.Instr.Pos()), "no parsing or normalising call on the key's backward slice inside the accessor", "the store accessor normalises the owner before it builds the key ("+norm+"): two genesis entries that validation keeps apart are stored under one key and one overwrites the other")
		}
	}
	// the pool query: the key is the canonical rendering whenever the owner parses
	if q := w.Func("x/cfevesting/keeper.Keeper.VestingPools"); q != nil {
		for _, s := range cg.Sites[q] {
			if calleeIs(s, "x/cfevesting/keeper.Keeper.GetAccountVestingPools") {
				a := s.Args()
				o := w.Tracer().Origins(a[len(a)-1])
				r.Check(o.HasCall("types.AccAddress.String") && o.HasCall("AccAddressFromBech32"), rule, funcName(q)+": pools looked up under the canonical address", w.Pos(s.Instr.Pos()), "AccAddress.String() of the parsed owner", "the query looks the pools up under the owner string as given in the request: a differently spelled owner gets 'not found' while a withdrawal by the same owner pays")
			}
		}
	}
}

// persistAfterInBlock: in block b an instruction satisfying isP follows instruction `after`.
func persistAfterInBlock(b *ssa.BasicBlock, after ssa.Instruction, isP func(ssa.Instruction) bool) bool {
	passed := false
	for _, in := range b.Instrs {
		if in == after {
			passed = true
			continue
		}
		if passed && isP(in) {
			return true
		}
	}
	return false
}
