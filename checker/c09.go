package main

import (
	"fmt"
	"go/token"
	"go/types"
	"strings"

	"golang.org/x/tools/go/ssa"
)

func init() { register("C09", checkC09) }

// sameValue: identical SSA value, or two loads of the same address.
func sameValue(a, b ssa.Value) bool {
	if a == b {
		return true
	}
	return sameLoad(a, b)
}

// guardUp decides whether the program point (block in fn) is, on every call chain from an entry point,
// dominated by the edge on which accountKeeper.GetAccount(val) returned nil. val is followed upwards
// through parameters (bottom-up parameter mapping, depth ≤ 3).
func (w *World) guardUp(fn *ssa.Function, at ssa.Instruction, val ssa.Value, depth int, chain string) (bool, string) {
	cg := w.CG()
	point := at.Block()
	// the guard: the edges on which GetAccount / HasAccount of the address of interest said "no such account"; through
	// guardEdgesIn also the success of an error-returning helper into which that test was moved (`if err :=
	// k.checkDestination(ctx, to); err != nil { return err }`)
	spec := GuardSpec{Name: "GetAccount(addr) == nil", IsVal: func(v ssa.Value) bool { return sameValue(v, val) },
		Edges: func(f *ssa.Function, bind Bind, isVal func(ssa.Value) bool) []Edge {
			var gets []ssa.Value
			for _, s := range cg.Sites[f] {
				if cg.Atom(s) == AuthGet && (s.Method == "GetAccount" || s.Method == "HasAccount") {
					a := s.Args()
					if len(a) > 0 && isVal(a[len(a)-1]) {
						if c := siteValue(s); c != nil {
							gets = append(gets, c)
						}
					}
				}
			}
			// a module accessor that does nothing but return GetAccount(its parameter) is the same read
			for _, s := range cg.Sites[f] {
				h := s.Static
				if h == nil || s.Invoke || h.Blocks == nil || !w.isProdFunc(h) {
					continue
				}
				if pi := w.authGetWrapperParam(h); pi >= 0 && pi < len(s.Common().Args) && isVal(s.Common().Args[pi]) {
					if c := siteValue(s); c != nil {
						gets = append(gets, c)
					}
				}
			}
			set := map[ssa.Value]bool{}
			for _, g := range gets {
				set[g] = true
			}
			out := NilEdges(f, set, true)
			// a module predicate that does nothing but answer `GetAccount(its parameter) != nil` (or HasAccount): the edge
			// on which it says "no such account"
			for _, s := range cg.Sites[f] {
				h := s.Static
				if h == nil || s.Invoke || h.Blocks == nil || !w.isProdFunc(h) {
					continue
				}
				pi, existsWhenTrue, isW := w.authExistsBoolWrapper(h)
				if !isW || pi >= len(s.Common().Args) || !isVal(s.Common().Args[pi]) {
					continue
				}
				cv := siteValue(s)
				out = append(out, EdgesWhere(f, func(base ssa.Value) (bool, bool) {
					if cv != nil && base == cv {
						return !existsWhenTrue, true
					}
					return false, false
				})...)
			}
			return out
		}}
	edges, _ := cg.guardEdgesIn(fn, Bind{}, spec, 0)
	if MustPass(fn, edges, point) {
		// the answer must still hold when the account is created: no bank transfer that credits the same address may run
		// between the test and the creation (the bank creates a missing recipient account on its own: the module would
		// then store its new account over that one)
		for _, e := range w.effectsBelow(fn, func(x *Site) bool { return cg.Atom(x) == BankMove }, 2) {
			ra := e.RootArgs()
			var addrs []ssa.Value
			for _, a := range ra {
				if strings.HasSuffix(typeString(a.Type()), "types.AccAddress") {
					addrs = append(addrs, a)
				}
			}
			if len(addrs) == 0 || !sameValue(addrs[len(addrs)-1], val) {
				continue // (the recipient is the last address argument of every bank transfer)
			}
			top := e.Top()
			if top != at && instrReachableFrom(top, at) {
				return false, chain + funcName(fn) + ": a bank transfer to the address (" + w.Pos(top.Pos()) + ") runs between the GetAccount(addr) == nil test and the creation of the account - the bank has created the account by then"
			}
		}
		return true, chain + funcName(fn) + " (guard here)"
	}
	p, isParam := val.(*ssa.Parameter)
	if !isParam {
		return false, chain + funcName(fn) + ": address is not guarded by GetAccount(addr) == nil and is not a parameter"
	}
	if depth >= 3 {
		return false, chain + funcName(fn) + ": depth bound reached"
	}
	idx := -1
	for i, x := range fn.Params {
		if x == p {
			idx = i
		}
	}
	callers := cg.Callers[fn]
	if len(callers) == 0 {
		return false, chain + funcName(fn) + ": no guard and no caller"
	}
	for _, cs := range callers {
		args := cs.Common().Args
		if cs.Common().IsInvoke() || idx >= len(args) {
			return false, chain + funcName(fn) + ": dynamic call site"
		}
		ok, why := w.guardUp(cs.Caller, cs.Instr, args[idx], depth+1, chain+funcName(fn)+" <- ")
		if !ok {
			return false, why
		}
	}
	return true, chain + funcName(fn) + " (guard at every call site)"
}

// upValues follows a value upwards through direct parameter forwarding and returns (function, value)
// pairs at which the value stops being a parameter.
func (w *World) upValues(fn *ssa.Function, v ssa.Value, depth int) [][2]interface{} {
	// interface conversions of a parameter hand the same object on
	bare := v
	for i := 0; i < 3; i++ {
		switch x := bare.(type) {
		case *ssa.MakeInterface:
			bare = x.X
			continue
		case *ssa.ChangeInterface:
			bare = x.X
			continue
		}
		break
	}
	// the result of a function handed in as a parameter (a validation / parsing step supplied by the caller as a
	// function literal): what that literal returns, in the caller that wrote it
	if depth <= 4 {
		var dyn *ssa.Call
		ridx := 0
		switch x := bare.(type) {
		case *ssa.Extract:
			dyn, _ = x.Tuple.(*ssa.Call)
			ridx = x.Index
		case *ssa.Call:
			dyn = x
		}
		if dyn != nil {
			if fp, isP := dyn.Common().Value.(*ssa.Parameter); isP && fp.Parent() == fn && !dyn.Common().IsInvoke() {
				fidx := -1
				for i, x := range fn.Params {
					if x == fp {
						fidx = i
					}
				}
				var out [][2]interface{}
				complete := fidx >= 0
				callers := w.CG().Callers[fn]
				for _, cs := range callers {
					a := cs.Common().Args
					if cs.Common().IsInvoke() || fidx >= len(a) {
						complete = false
						break
					}
					mc, isMC := a[fidx].(*ssa.MakeClosure)
					if !isMC {
						complete = false
						break
					}
					lit, _ := mc.Fn.(*ssa.Function)
					if lit == nil || lit.Blocks == nil || lit.Parent() != cs.Caller {
						complete = false
						break
					}
					for _, ret := range Returns(lit) {
						if rv := retVals(ret); ridx < len(rv) {
							// a literal that returns the result of a parsing helper: the value is followed from the literal's
							// lexical parent (its captured variables are that function's values)
							out = append(out, [2]interface{}{cs.Caller, rv[ridx]})
						}
					}
				}
				if complete && len(callers) > 0 && len(out) > 0 {
					return out
				}
			}
		}
	}
	p, ok := bare.(*ssa.Parameter)
	if !ok || depth > 4 {
		return [][2]interface{}{{fn, v}}
	}
	idx := -1
	for i, x := range fn.Params {
		if x == p {
			idx = i
		}
	}
	callers := w.CG().Callers[fn]
	if len(callers) == 0 {
		return [][2]interface{}{{fn, v}}
	}
	var out [][2]interface{}
	for _, cs := range callers {
		a := cs.Common().Args
		if cs.Common().IsInvoke() || idx >= len(a) {
			out = append(out, [2]interface{}{fn, v})
			continue
		}
		out = append(out, w.upValues(cs.Caller, a[idx], depth+1)...)
	}
	return out
}

// signerFields: for a message type, the field names parsed by GetSigners (directly, or in a helper the field is
// handed to: `return authoritySigners(msg.Authority)`).
func (w *World) signerFields(named *types.Named) []string {
	fn := w.methodOf(named, "GetSigners")
	if fn == nil || fn.Blocks == nil {
		return nil
	}
	cg := w.CG()
	fieldOfArg := func(a ssa.Value) string {
		if u, ok := a.(*ssa.UnOp); ok {
			if fa, ok := u.X.(*ssa.FieldAddr); ok {
				_, f := fieldOf(fa)
				return f
			}
		}
		return ""
	}
	// parsesParam: h hands its parameter p to (Must)AccAddressFromBech32, possibly through one more helper
	var parsesParam func(h *ssa.Function, p *ssa.Parameter, depth int) bool
	parsesParam = func(h *ssa.Function, p *ssa.Parameter, depth int) bool {
		for _, s := range cg.Sites[h] {
			if s.Static == nil || s.Invoke {
				continue
			}
			for i, a := range s.Common().Args {
				if a != ssa.Value(p) {
					continue
				}
				if hasSuffixAny(qualifiedFuncName(s.Static), "types.AccAddressFromBech32", "types.MustAccAddressFromBech32") {
					return true
				}
				if depth < 2 && s.Static.Blocks != nil && w.isProdFunc(s.Static) && i < len(s.Static.Params) && parsesParam(s.Static, s.Static.Params[i], depth+1) {
					return true
				}
			}
		}
		return false
	}
	var out []string
	for _, s := range cg.Sites[fn] {
		if s.Static == nil || s.Invoke {
			continue
		}
		if hasSuffixAny(qualifiedFuncName(s.Static), "types.AccAddressFromBech32", "types.MustAccAddressFromBech32") {
			if f := fieldOfArg(s.Common().Args[0]); f != "" {
				out = append(out, f)
			}
			continue
		}
		if s.Static.Blocks == nil || !w.isProdFunc(s.Static) {
			continue
		}
		for i, a := range s.Common().Args {
			if f := fieldOfArg(a); f != "" && i < len(s.Static.Params) && parsesParam(s.Static, s.Static.Params[i], 0) {
				out = append(out, f)
			}
		}
	}
	return out
}

func checkC09(w *World, r *Report) {
	cg := w.CG()
	ro := w.Roles()
	r.Undecided = []string{"none: C09 is structural; what the auth keeper's SetAccount does with the value is trusted SDK semantics"}
	r.Rule("C09.sites", "P4", "every account write (SetAccount) reachable from a message or block routine of the custom modules is enumerated and classified as 'fresh account' or 'signer's own vesting reduction'", 3)
	r.Rule("C09.fresh", "P5,P6", "a SetAccount whose account value originates from NewAccountWithAddress(addr) is, on every call chain, dominated by the edge on which GetAccount(addr) returned nil for the same address value", 2)
	r.Rule("C09.self", "P4,P6", "the only other SetAccount stores an account obtained by GetAccount(owner) of which only OriginalVesting was assigned, and at every message call chain owner is parsed from the message field that GetSigners returns; the object stored is the very object read (no conversion or reconstruction)", 5)
	if !ro.checkFloors(r) {
		return
	}
	roots := append(append([]*ssa.Function{}, flatten(ro.MSG)...), flatten(ro.BLK)...)
	reach := cg.Reach(roots)
	tr := w.Tracer()
	for _, s := range cg.SitesIn(reach) {
		if cg.Atom(s) != AuthSet {
			continue
		}
		fn := s.Caller
		pos := w.Pos(s.Instr.Pos())
		acc0 := s.Args()[len(s.Args())-1]
		// the write may sit in a helper that is handed the account: the account value is followed through pass-through
		// parameters to every caller and classified there
		for _, pair := range w.upValues(fn, acc0, 0) {
			af := pair[0].(*ssa.Function)
			acc := pair[1].(ssa.Value)
			where := funcName(fn)
			if af != fn {
				where += " (account handed in by " + funcName(af) + ")"
			}
			o := tr.Origins(acc)
			news := append(o.CallsNamed("NewAccountWithAddress"), o.CallsNamed(".NewAccount")...)
			gets := o.CallsNamed(".GetAccount")
			switch {
			case len(news) > 0 && len(gets) == 0:
				r.Enum("C09.sites", "SetAccount in "+where+" (fresh account)", pos, "account value originates from NewAccountWithAddress")
				for _, nc := range news {
					a := nc.Common().Args
					addr := a[len(a)-1]
					ok, why := w.guardUp(nc.Parent(), nc, addr, 0, "")
					if nc.Parent() == fn {
						ok, why = w.guardUp(fn, s.Instr, addr, 0, "")
					}
					r.Check(ok, "C09.fresh", "SetAccount in "+where+": address not yet in use", pos, "GetAccount(addr)==nil edge dominates on every chain: "+why, "an existing account at this address can be overwritten: "+why)
				}
			case len(gets) > 0 && len(news) == 0:
				r.Enum("C09.sites", "SetAccount in "+where+" (existing account)", pos, "account value originates from GetAccount")
				c09self(w, r, s, gets, tr)
			default:
				r.Bad("C09.sites", "SetAccount in "+where+" (unclassified)", pos, "the stored account is neither a fresh account nor one read by GetAccount: "+o.String())
			}
		}
	}
	if w.Tier == "thorough" {
		r.Rule("C09.closedworld", "P3 (VTA, whole program)", "thorough tier: every caller of the auth keeper's SetAccount that is reachable from a custom message through module and SDK code is an enumerated module site or a reviewed SDK path that only creates missing accounts", 3)
		closedWorldAccounts(w, r, "C09.closedworld")
	}
	for _, s := range cg.SitesIn(reach) {
		if cg.Atom(s) == AuthRemove {
			r.Bad("C09.sites", "RemoveAccount in "+funcName(s.Caller), w.Pos(s.Instr.Pos()), "a custom message or block routine removes an account")
		}
	}
}

func c09self(w *World, r *Report, s *Site, gets []*ssa.Call, tr *Tracer) {
	fn := s.Caller
	pos := w.Pos(s.Instr.Pos())
	ro := w.Roles()
	// the account written back is the very object that was read: same type, number, sequence, key; a converted or
	// rebuilt account replaces the existing one
	r.Check(w.objectReadBy(s.Args()[len(s.Args())-1], ".GetAccount", 0), "C09.self", funcName(fn)+": the account stored is the object that was read", pos,
		"SetAccount receives the (type-asserted) result of GetAccount", "the account written back is not the object that was read but a converted or rebuilt one: the existing account is replaced (type, and every field the constructor is not given)")
	// the operation: the function that holds the write, or - when the read and the write sit in different helpers - the
	// nearest caller below which both lie; its whole tree is inspected for modifications of the account
	cg := w.CG()
	op := fn
	holds := func(root *ssa.Function) bool {
		for _, g := range gets {
			found := g.Parent() == root
			if !found {
				for _, e := range w.effectsBelow(root, func(x *Site) bool { return x.Instr == ssa.CallInstruction(g) }, 3) {
					_ = e
					found = true
				}
			}
			if !found {
				return false
			}
		}
		return true
	}
	for lvl := 0; lvl < 3 && !holds(op); lvl++ {
		callers := cg.Callers[op]
		if len(callers) != 1 {
			break
		}
		op = callers[0].Caller
	}
	var opFns []*ssa.Function
	opFns = append(opFns, op)
	seenOp := map[*ssa.Function]bool{op: true}
	for _, e := range w.effectsBelow(op, func(x *Site) bool { return x == s || cg.Atom(x) == AuthGet }, 3) {
		for _, c := range e.Chain {
			if !seenOp[c.Static] {
				seenOp[c.Static] = true
				opFns = append(opFns, c.Static)
			}
		}
	}
	// field stores to vesting account types in the operation: only OriginalVesting
	var opStores []FieldStore
	for _, f := range opFns {
		opStores = append(opStores, FieldStores(f)...)
	}
	for _, fs := range opStores {
		if fs.Struct == nil || fs.Struct.Obj().Pkg() == nil {
			continue
		}
		pk := fs.Struct.Obj().Pkg().Path()
		if strings.Contains(pk, "x/auth/") {
			r.Check(fs.Field == "OriginalVesting", "C09.self", fmt.Sprintf("%s: field %s.%s of the existing account", funcName(fn), fs.Struct.Obj().Name(), fs.Field), w.Pos(fs.Store.Pos()),
				"only OriginalVesting is assigned", "a field other than OriginalVesting of an existing account is modified")
		}
	}
	// mutating methods on the account other than field stores
	var opSites []*Site
	for _, f := range opFns {
		opSites = append(opSites, cg.Sites[f]...)
	}
	for _, s2 := range opSites {
		if strings.HasPrefix(s2.Method, "Set") && s2.RecvType != nil && strings.Contains(typeString(s2.RecvType), "x/auth/") && cg.Atom(s2) == "" {
			r.Bad("C09.self", funcName(fn)+": "+s2.Method+" on the existing account", w.Pos(s2.Instr.Pos()), "the existing account is modified through a setter")
		}
	}
	// owner address: follow upwards to the handlers
	for _, g := range gets {
		a := g.Common().Args
		owner := a[len(a)-1]
		type ownerAt struct {
			f   *ssa.Function
			v   ssa.Value
			ctx *tctx
		}
		isHandlerFn := func(f *ssa.Function) bool {
			for _, h := range flatten(ro.MSG) {
				if h == f {
					return true
				}
			}
			return false
		}
		var owners []ownerAt
		for _, pair := range w.upValues(g.Parent(), owner, 0) {
			f := pair[0].(*ssa.Function)
			v := pair[1].(ssa.Value)
			if isHandlerFn(f) || parentOf(v) != f {
				owners = append(owners, ownerAt{f, v, nil})
				continue
			}
			// the address is computed in a body shared by several handlers (from what each handler hands in): one
			// obligation per handler, the value traced in the context of that handler's call chain
			var chains [][]*Site
			var climb func(fn *ssa.Function, below []*Site, depth int)
			climb = func(fn *ssa.Function, below []*Site, depth int) {
				for _, cs := range cg.Callers[fn] {
					if cs.Static != fn || cs.Invoke {
						continue
					}
					chain := append([]*Site{cs}, below...)
					if isHandlerFn(cs.Caller) {
						chains = append(chains, chain)
					} else if depth < 2 {
						climb(cs.Caller, chain, depth+1)
					}
				}
			}
			climb(f, nil, 0)
			if len(chains) == 0 {
				owners = append(owners, ownerAt{f, v, nil})
			}
			for _, ch := range chains {
				owners = append(owners, ownerAt{ch[0].Caller, v, ctxOfChain(ch[0].Caller, ch)})
			}
		}
		for _, ow := range owners {
			f, v := ow.f, ow.v
			// f should be a handler (or reach one directly)
			msg := msgParam(f)
			construct := "owner of the modified account in " + funcName(f)
			if !isHandlerFn(f) || msg == nil {
				r.Bad("C09.self", construct, w.Pos(f.Pos()), "the owner address does not come from a message handler by parameter forwarding")
				continue
			}
			named, _ := msg.Type().Underlying().(*types.Pointer).Elem().(*types.Named)
			signers := w.signerFields(named)
			o := tr.Origins(v)
			if ow.ctx != nil {
				st := &tstate{t: tr, o: newOrigin(), seen: map[string]bool{}}
				st.trace(v, nil, ow.ctx)
				o = st.o
			}
			var fromFields []string
			for _, l := range o.Leaves {
				if l.Kind == "param" && l.V == ssa.Value(msg) && l.Path != "" {
					fromFields = append(fromFields, l.Path)
				}
			}
			ok := len(signers) > 0 && len(fromFields) > 0
			for _, p := range fromFields {
				match := false
				for _, sf := range signers {
					if strings.HasSuffix(p, "."+sf) {
						match = true
					}
				}
				if !match {
					ok = false
				}
			}
			r.Check(ok, "C09.self", construct, pos, fmt.Sprintf("owner parsed from %v; GetSigners parses %v", fromFields, signers), fmt.Sprintf("the account that is modified is parsed from %v, the signer from %v", fromFields, signers))
		}
	}
}

// authGetWrapperParam: h returns, on its only return, the result of accountKeeper.GetAccount(ctx, p) for one of its own
// parameters p and has no other effect; returns p's index in h.Params (-1 otherwise).
func (w *World) authGetWrapperParam(h *ssa.Function) int {
	rets := Returns(h)
	if len(rets) != 1 {
		return -1
	}
	rv := retVals(rets[0])
	if len(rv) != 1 {
		return -1
	}
	c, ok := rv[0].(*ssa.Call)
	if !ok {
		return -1
	}
	cg := w.CG()
	for _, s := range cg.Sites[h] {
		if a := cg.Atom(s); a != "" && a != AuthGet {
			return -1
		}
		if s.Instr != ssa.CallInstruction(c) {
			continue
		}
		if cg.Atom(s) != AuthGet || s.Method != "GetAccount" {
			return -1
		}
		args := s.Args()
		if len(args) == 0 {
			return -1
		}
		for i, p := range h.Params {
			if args[len(args)-1] == ssa.Value(p) {
				return i
			}
		}
	}
	return -1
}

// authExistsBoolWrapper: h is a straight-line predicate `return GetAccount(ctx, p) != nil` / `== nil` /
// `HasAccount(ctx, p)` (possibly negated) over its own parameter p, with no other effect: the index of p and whether
// "true" means that the account exists.
func (w *World) authExistsBoolWrapper(h *ssa.Function) (int, bool, bool) {
	if len(h.Blocks) != 1 {
		return -1, false, false
	}
	rets := Returns(h)
	if len(rets) != 1 {
		return -1, false, false
	}
	rv := retVals(rets[0])
	if len(rv) != 1 || !strings.HasSuffix(typeString(rv[0].Type()), "bool") {
		return -1, false, false
	}
	base, neg := stripNot(rv[0])
	var call *ssa.Call
	exists := true
	switch x := base.(type) {
	case *ssa.BinOp:
		if x.Op != token.EQL && x.Op != token.NEQ {
			return -1, false, false
		}
		if isNilConst(x.Y) {
			call, _ = x.X.(*ssa.Call)
		} else if isNilConst(x.X) {
			call, _ = x.Y.(*ssa.Call)
		}
		exists = x.Op == token.NEQ
	case *ssa.Call:
		call = x
	}
	if call == nil {
		return -1, false, false
	}
	if neg {
		exists = !exists
	}
	cg := w.CG()
	idx := -1
	for _, s := range cg.Sites[h] {
		if a := cg.Atom(s); a != "" && a != AuthGet {
			return -1, false, false
		}
		if s.Instr != ssa.CallInstruction(call) {
			continue
		}
		if cg.Atom(s) != AuthGet || (s.Method != "GetAccount" && s.Method != "HasAccount") {
			return -1, false, false
		}
		if _, isBin := base.(*ssa.BinOp); isBin != (s.Method == "GetAccount") {
			return -1, false, false
		}
		args := s.Args()
		if len(args) == 0 {
			return -1, false, false
		}
		for i, p := range h.Params {
			if args[len(args)-1] == ssa.Value(p) {
				idx = i
			}
		}
	}
	return idx, exists, idx >= 0
}
