#!/usr/bin/env python3
"""Self-validation matrix for the checker (tests the checker, not the property).

Each variant in mutants.py is a small edit of /repo's current working tree, applied to a scratch copy
outside /repo and /verif. A 'fire' variant must make the named rule report a violation (and the variant
must still type-check); a 'silent' variant is a behaviour-preserving rewrite on which the property's
check must stay green. A variant whose anchor text no longer occurs in /repo is reported as skipped.

usage: run.py [--prop C13] [--id name] [--jobs N] [--keep]
"""
import argparse, concurrent.futures, json, os, re, shutil, subprocess, sys, tempfile, time

HERE = os.path.dirname(os.path.abspath(__file__))
VERIF = os.path.dirname(HERE)
sys.path.insert(0, HERE)
from mutants import MUTANTS  # noqa

ENV = dict(os.environ, GOFLAGS="-mod=mod", GOPROXY="off", GOSUMDB="off", GOTOOLCHAIN="local")
ENV.pop("GOWORK", None)


def run_one(m, keep=False, repo="/repo"):
    t0 = time.time()
    d = tempfile.mkdtemp(prefix="c4e-mut-", dir=os.environ.get("VERIF_SCRATCH", "/tmp"))
    try:
        subprocess.run(["rsync", "-a", "--exclude", ".git", "--exclude", "ts-client", "--exclude", "vue", repo + "/", d + "/src/"], check=True)
        for (f, old, new) in m["edits"]:
            p = os.path.join(d, "src", f)
            if not os.path.exists(p):
                return dict(id=m["id"], status="skipped", why="file missing: " + f)
            s = open(p).read()
            if old not in s:
                return dict(id=m["id"], status="skipped", why="anchor text not found in " + f)
            s = s.replace(old, new, 1)
            open(p, "w").write(s)
        out = os.path.join(d, "out")
        os.makedirs(out)
        res = []
        ok = True
        why = ""
        for prop in m["props"]:
            cp = subprocess.run([os.environ.get("C4E_BIN", os.path.join(VERIF, "bin", "c4echeck")), "-prop", prop, "-tier", "quick", "-repo", os.path.join(d, "src"), "-verif", VERIF, "-out", out],
                                capture_output=True, text=True, env=ENV)
            txt = cp.stdout + cp.stderr
            if "type errors in module packages" in txt or "packages.Load" in txt:
                return dict(id=m["id"], status="invalid", why="variant does not type-check: " + txt[-400:])
            fired = sorted(set(re.findall(r"^VIOLATED\s+\S+\s+rule=(\S+)", txt, re.M)))
            undec = sorted(set(re.findall(r"^UNDECIDED\s+\S+\s+rule=(\S+)", txt, re.M)))
            res.append(dict(prop=prop, exit=cp.returncode, fired=fired, undecided=undec))
            if m.get("silent"):
                if cp.returncode != 0:
                    ok = False
                    why += "%s not silent: fired=%s undecided=%s; " % (prop, fired, undec)
        if not m.get("silent"):
            allfired = set(x for r in res for x in r["fired"])
            for rule in m["fire"]:
                if rule not in allfired:
                    ok = False
                    why += "rule %s did not fire (fired: %s; undecided: %s); " % (rule, sorted(allfired), [r["undecided"] for r in res])
        return dict(id=m["id"], status="ok" if ok else "FAIL", why=why, results=res, wall_s=round(time.time() - t0, 1))
    finally:
        if not keep:
            shutil.rmtree(d, ignore_errors=True)
        else:
            print("kept", d)


def main():
    ap = argparse.ArgumentParser()
    ap.add_argument("--prop")
    ap.add_argument("--id")
    ap.add_argument("--jobs", type=int, default=6)
    ap.add_argument("--keep", action="store_true")
    ap.add_argument("--json")
    ap.add_argument("--repo", default="/repo")
    ap.add_argument("--quiet", action="store_true")
    a = ap.parse_args()
    ms = [m for m in MUTANTS if (not a.prop or a.prop in m["props"]) and (not a.id or a.id == m["id"])]
    if not os.path.exists(os.path.join(VERIF, "bin", "c4echeck")):
        subprocess.run(["bash", "-c", "cd %s/checker && go build -o ../bin/c4echeck ." % VERIF], check=True, env=ENV)
    results = []
    with concurrent.futures.ThreadPoolExecutor(max_workers=a.jobs) as ex:
        for r in ex.map(lambda m: run_one(m, a.keep, a.repo), ms):
            results.append(r)
            if not a.quiet or r["status"] in ("FAIL", "invalid"):
                print("%-8s %-40s %s" % (r["status"], r["id"], r.get("why", "")[:300]))
    bad = [r for r in results if r["status"] in ("FAIL", "invalid")]
    if not a.quiet:
      print("variants: %d ok, %d FAIL, %d invalid, %d skipped" % (
        sum(r["status"] == "ok" for r in results), sum(r["status"] == "FAIL" for r in results),
        sum(r["status"] == "invalid" for r in results), sum(r["status"] == "skipped" for r in results)))
    if a.json:
        json.dump(results, open(a.json, "w"), indent=1)
    sys.exit(1 if bad else 0)


if __name__ == "__main__":
    main()
