# Self-validation variants: (file, old text, new text) edits of /repo's working tree applied to a scratch copy.
# 'fire': rules that must report a violation; 'silent': behaviour-preserving rewrite, check must stay green.
MUTANTS = []


def fire(id, props, rules, *edits):
    MUTANTS.append(dict(id=id, props=props if isinstance(props, list) else [props], fire=rules if isinstance(rules, list) else [rules], edits=list(edits)))


def silent(id, props, *edits):
    MUTANTS.append(dict(id=id, props=props if isinstance(props, list) else [props], silent=True, edits=list(edits)))


DIST_MS = "x/cfedistributor/keeper/msg_server_update_params.go"
MINT_MS = "x/cfeminter/keeper/msg_server_update_params.go"
VEST_DEN = "x/cfevesting/keeper/msg_server_update_denom_param.go"

# ---------------- C13 ----------------
fire("c13-auth-deleted", "C13", ["C13.auth", "C13.authfail"],
     (DIST_MS, """	if k.authority != msg.Authority {
		return nil, errors.Wrapf(govtypes.ErrInvalidSigner, "invalid authority; expected %s, got %s", k.authority, msg.Authority)
	}

	ctx := sdk.UnwrapSDKContext(goCtx)
	if err := k.SetParams(ctx, types.Params{SubDistributors: msg.SubDistributors}); err != nil {""",
      """	ctx := sdk.UnwrapSDKContext(goCtx)
	if err := k.SetParams(ctx, types.Params{SubDistributors: msg.SubDistributors}); err != nil {"""))
fire("c13-auth-inverted", "C13", ["C13.auth"],
     (MINT_MS, "if k.authority != authority {", "if k.authority == authority {"))
fire("c13-auth-self-compare", "C13", ["C13.auth"],
     (VEST_DEN, "if k.authority != msg.Authority {", "if msg.Authority != msg.Authority {"))
fire("c13-auth-nonfatal", "C13", ["C13.auth"],
     (VEST_DEN, """	if k.authority != msg.Authority {
		return nil, errors.Wrapf(govtypes.ErrInvalidSigner, "invalid authority; expected %s, got %s", k.authority, msg.Authority)
	}""", """	if k.authority != msg.Authority {
		k.Logger(sdk.UnwrapSDKContext(goCtx)).Error(errors.Wrapf(govtypes.ErrInvalidSigner, "invalid authority; expected %s, got %s", k.authority, msg.Authority).Error())
	}"""))
fire("c13-authfail-nil-error", "C13", ["C13.authfail"],
     (VEST_DEN, """		return nil, errors.Wrapf(govtypes.ErrInvalidSigner, "invalid authority; expected %s, got %s", k.authority, msg.Authority)
	}
	ctx""", """		return &types.MsgUpdateDenomParamResponse{}, nil
	}
	ctx"""))
silent("c13-auth-swapped-operands", "C13",
       (VEST_DEN, "if k.authority != msg.Authority {", "if msg.Authority != k.authority {"))
silent("c13-auth-eq-form", "C13",
       (MINT_MS, """	if k.authority != authority {
		return errors.Wrapf(govtypes.ErrInvalidProposalContent, govtypes.ErrInvalidSigner.Error())
	}
""", """	if !(k.authority == authority) {
		return errors.Wrapf(govtypes.ErrInvalidProposalContent, govtypes.ErrInvalidSigner.Error())
	}
"""))
fire("c13-validated-direct-set", "C13", ["C13.validated"],
     ("x/cfevesting/keeper/params.go", """	if err := p.Validate(); err != nil {
		return err
	}
""", """	if err := p.Validate(); err != nil {
		k.Logger(ctx).Error(err.Error())
	}
"""))
fire("c13-validated-other-value", "C13", ["C13.validated"],
     ("x/cfedistributor/keeper/params.go", "	if err := p.Validate(); err != nil {", "	if err := types.DefaultParams().Validate(); err != nil {"))
fire("c13-validated-write-first", "C13", ["C13.validated"],
     ("x/cfeminter/keeper/params.go", """	if err := p.Validate(); err != nil {
		return err
	}

	store := ctx.KVStore(k.storeKey)
	bz := k.cdc.MustMarshal(&p)
	store.Set(types.ParamsKey, bz)
	return nil""", """	store := ctx.KVStore(k.storeKey)
	bz := k.cdc.MustMarshal(&p)
	store.Set(types.ParamsKey, bz)
	if err := p.Validate(); err != nil {
		return err
	}
	return nil"""))
fire("c13-current-guard-deleted", "C13", ["C13.current"],
     (MINT_MS, """	if !params.ContainsMinter(minterState.SequenceId) {
		return errors.Wrapf(govtypes.ErrInvalidProposalContent, "minter state sequence id %d not found in minters", minterState.SequenceId)
	}
""", """	_ = minterState
"""))
fire("c13-current-wrong-id", "C13", ["C13.current"],
     (MINT_MS, "if !params.ContainsMinter(minterState.SequenceId) {", "if !params.ContainsMinter(1) {"))
silent("c13-current-guard-moved-up", "C13",
       (MINT_MS, """	if k.authority != authority {
		return errors.Wrapf(govtypes.ErrInvalidProposalContent, govtypes.ErrInvalidSigner.Error())
	}

	minterState := k.GetMinterState(ctx)
	if !params.ContainsMinter(minterState.SequenceId) {
		return errors.Wrapf(govtypes.ErrInvalidProposalContent, "minter state sequence id %d not found in minters", minterState.SequenceId)
	}
""", """	minterState := k.GetMinterState(ctx)
	if !params.ContainsMinter(minterState.SequenceId) {
		return errors.Wrapf(govtypes.ErrInvalidProposalContent, "minter state sequence id %d not found in minters", minterState.SequenceId)
	}
	if k.authority != authority {
		return errors.Wrapf(govtypes.ErrInvalidProposalContent, govtypes.ErrInvalidSigner.Error())
	}
"""))
fire("c13-denom-guard-deleted", "C13", ["C13.denom"],
     (VEST_DEN, """	if len(poolList) > 0 {
		return nil, errors.Wrapf(govtypes.ErrInvalidProposalMsg, "Pool exist cannot change denom")

	}
""", """	_ = poolList
"""))
silent("c13-denom-guard-neq-form", "C13",
       (VEST_DEN, "if len(poolList) > 0 {", "if len(poolList) != 0 {"))
fire("c13-gov-other-authority", "C13", ["C13.gov"],
     ("app/params/config.go", "authorityAddress = authtypes.NewModuleAddress(govtypes.ModuleName).String()", "authorityAddress = authtypes.NewModuleAddress(govtypes.ModuleName + \"x\").String()"))
fire("c13-gov-second-writer", "C13", ["C13.gov"],
     ("app/params/config.go", """func GetAuthority() string {""", """func OverrideAuthority(a string) { authorityAddress = a }

func GetAuthority() string {"""))
fire("c13-gov-constant-authority", "C13", ["C13.gov"],
     ("app/app.go", """		app.GetSubspace(cfedistributormoduletypes.ModuleName),
		app.BankKeeper,
		app.AccountKeeper,
		appparams.GetAuthority(),""", """		app.GetSubspace(cfedistributormoduletypes.ModuleName),
		app.BankKeeper,
		app.AccountKeeper,
		authtypes.NewModuleAddress(authtypes.FeeCollectorName).String(),"""))

# ---------------- C01 ----------------
MINT = "x/cfeminter/keeper/mint.go"
DISTR = "x/cfedistributor/keeper/distribution.go"
VEST = "x/cfevesting/keeper/vesting.go"
fire("c01-vesting-mints-on-withdraw", "C01", ["C01.confine", "C01.iface", "C01.moveonly"],
     ("x/cfevesting/types/expected_keepers.go", "	BlockedAddr(addr sdk.AccAddress) bool\n}", "	BlockedAddr(addr sdk.AccAddress) bool\n	MintCoins(ctx sdk.Context, moduleName string, amt sdk.Coins) error\n}"),
     (VEST, "		err = k.bank.SendCoinsFromModuleToAccount(ctx, types.ModuleName, ownerAddress, coinsToSend)\n		if err != nil {\n			k.Logger(ctx).Error(\"withdraw all available sending",
      "		if k.bank.GetBalance(ctx, k.account.GetModuleAccount(ctx, types.ModuleName).GetAddress(), denom).Amount.LT(toWithdraw) {\n			_ = k.bank.MintCoins(ctx, types.ModuleName, coinsToSend)\n		}\n		err = k.bank.SendCoinsFromModuleToAccount(ctx, types.ModuleName, ownerAddress, coinsToSend)\n		if err != nil {\n			k.Logger(ctx).Error(\"withdraw all available sending"))
fire("c01-upgrade-burns", "C01", ["C01.confine"],
     ("app/upgrades/v120/upgrades.go", "		UpdateVestingAccountTraces(ctx, appKeepers)\n", "		UpdateVestingAccountTraces(ctx, appKeepers)\n		_ = (*appKeepers.GetBankKeeper()).BurnCoins(ctx, cfevestingmoduletypes.ModuleName, sdk.NewCoins())\n"))
fire("c01-second-mint", "C01", ["C01.mint1"],
     (MINT, "	err = k.SendMintedCoins(ctx, coins)", "	if level > 0 {\n		_ = k.MintCoins(ctx, coins)\n	}\n	err = k.SendMintedCoins(ctx, coins)"))
fire("c01-forward-nothing", "C01", ["C01.mint1"],
     (MINT, "	err = k.SendMintedCoins(ctx, coins)", "	err = k.SendMintedCoins(ctx, sdk.NewCoins())"))
fire("c01-bookkeep-other-amount", "C01", ["C01.mint1"],
     (MINT, "minterState.AmountMinted = minterState.AmountMinted.Add(amount)", "minterState.AmountMinted = minterState.AmountMinted.Add(amount.AddRaw(1))"))
fire("c01-mint-error-ignored", "C01", ["C01.mint1"],
     (MINT, """	if err != nil {
		k.Logger(ctx).Error("mint - mint coins error", "lev", level, "error", err.Error())
		return sdk.ZeroInt(), sdkerrors.Wrap(err, "minter mint coins error")
	}
""", """	if err != nil {
		k.Logger(ctx).Error("mint - mint coins error", "lev", level, "error", err.Error())
	}
"""))
fire("c01-collector-other", "C01", ["C01.mint1"],
     ("app/app.go", "		app.StakingKeeper,\n		cfedistributormoduletypes.DistributorMainAccount,", "		app.StakingKeeper,\n		authtypes.FeeCollectorName,"))
fire("c01-mint-into-other-module", "C01", ["C01.mint1"],
     ("x/cfeminter/keeper/keeper.go", "return k.bankKeeper.MintCoins(ctx, types.ModuleName, newCoins)", "return k.bankKeeper.MintCoins(ctx, k.collectorName, newCoins)"))
fire("c01-burn-remains-before-check", ["C01"], ["C01.burn1"],
     (DISTR, """	if err := k.BurnCoinsForSpecifiedModuleAccount(ctx, toSend, types.DistributorMainAccount); err != nil {
		ctx.Logger().Error("burn coins error", "state", state, "error", err.Error())
	} else {""", """	state.Remains = change
	if err := k.BurnCoinsForSpecifiedModuleAccount(ctx, toSend, types.DistributorMainAccount); err != nil {
		ctx.Logger().Error("burn coins error", "state", state, "error", err.Error())
	} else {"""))
fire("c01-burn-non-burn-state", "C01", ["C01.burn1"],
     (DISTR, "			if state.Burn {\n				k.burnCoins(ctx, &state)", "			if !state.Burn {\n				k.burnCoins(ctx, &state)"))
fire("c01-burn-other-account", "C01", ["C01.burn1"],
     (DISTR, "k.BurnCoinsForSpecifiedModuleAccount(ctx, toSend, types.DistributorMainAccount)", "k.BurnCoinsForSpecifiedModuleAccount(ctx, toSend, types.ValidatorsRewardsCollector)"))
fire("c01-burn-no-reduce", "C01", ["C01.burn1"],
     (DISTR, """				[]metrics.Label{telemetry.NewLabel("denom", types.DenomToTrace)},
			)
		}
		state.Remains = change
	}
}

func (k Keeper) sendCoinsToModuleAccount""", """				[]metrics.Label{telemetry.NewLabel("denom", types.DenomToTrace)},
			)
		}
		_ = change
	}
}

func (k Keeper) sendCoinsToModuleAccount"""))
silent("c01-coins-in-helper", "C01",
       (MINT, "	coin := sdk.NewCoin(params.MintDenom, amount)\n	coins := sdk.NewCoins(coin)\n", "	coins := sdk.NewCoins(sdk.NewCoin(params.MintDenom, amount))\n"))
silent("c01-burn-early-return", "C01",
       (DISTR, """	if err := k.BurnCoinsForSpecifiedModuleAccount(ctx, toSend, types.DistributorMainAccount); err != nil {
		ctx.Logger().Error("burn coins error", "state", state, "error", err.Error())
	} else {
		k.Logger(ctx).Debug("Coins burned", "coins", toSend)""", """	if err := k.BurnCoinsForSpecifiedModuleAccount(ctx, toSend, types.DistributorMainAccount); err != nil {
		ctx.Logger().Error("burn coins error", "state", state, "error", err.Error())
		return
	}
	{
		k.Logger(ctx).Debug("Coins burned", "coins", toSend)"""))

# ---------------- C05 ----------------
SPLIT = "x/cfevesting/keeper/msg_server_split_vesting.go"
fire("c05-persist-before-transfer", "C05", ["C05.pair"],
     (VEST, """		err = k.bank.SendCoinsFromModuleToAccount(ctx, types.ModuleName, ownerAddress, coinsToSend)
		if err != nil {
			k.Logger(ctx).Error("withdraw all available sending coins to vesting account error", "owner", owner, "error", err.Error())
			return withdrawn, sdkerrors.Wrap(types.ErrSendCoins, sdkerrors.Wrapf(err, "withdraw all available - send coins to vesting account error: owner: %s", owner).Error())
		}
	}
""", """		err = k.bank.SendCoinsFromModuleToAccount(ctx, types.ModuleName, ownerAddress, coinsToSend)
		if err != nil {
			k.Logger(ctx).Error("withdraw all available sending coins to vesting account error", "owner", owner, "error", err.Error())
		}
	}
"""))
fire("c05-transfer-less", "C05", ["C05.pair"],
     (VEST, "		coinToSend := sdk.NewCoin(denom, toWithdraw)\n		coinsToSend := sdk.NewCoins(coinToSend)\n		err = k.bank.SendCoinsFromModuleToAccount", "		coinToSend := sdk.NewCoin(denom, toWithdraw.SubRaw(1))\n		coinsToSend := sdk.NewCoins(coinToSend)\n		err = k.bank.SendCoinsFromModuleToAccount"))
fire("c05-pool-create-transfer-other", "C05", ["C05.pair"],
     (VEST, "	coinToSend := sdk.NewCoin(denom, amount)\n	coinsToSend := sdk.NewCoins(coinToSend)\n	err := k.bank.SendCoinsFromAccountToModule", "	coinToSend := sdk.NewCoin(denom, balance.Amount)\n	coinsToSend := sdk.NewCoins(coinToSend)\n	err := k.bank.SendCoinsFromAccountToModule"))
fire("c05-sent-without-transfer", "C05", ["C05.pair"],
     (VEST, "	coinsToSend := sdk.NewCoins(coinToSend)\n	err = k.bank.SendCoinsFromModuleToAccount(ctx, types.ModuleName, toAddress, coinsToSend)\n", "	coinsToSend := sdk.NewCoins(coinToSend)\n	if !free.IsZero() {\n		err = k.bank.SendCoins(ctx, toAddress, toAddress, coinsToSend)\n	}\n"))
fire("c05-zero-withdrawn", "C05", ["C05.pair"],
     (VEST, "	current := ctx.BlockTime()\n	toWithdraw := sdk.ZeroInt()", "	if len(accVestingPools.VestingPools) > 7 {\n		accVestingPools.VestingPools[0].Withdrawn = sdk.ZeroInt()\n	}\n	current := ctx.BlockTime()\n	toWithdraw := sdk.ZeroInt()"))
fire("c05-send-persist-on-error", "C05", ["C05.pair"],
     (VEST, "	if err == nil {\n		k.SetAccountVestingPools(ctx, accVestingPools)\n		k.AppendVestingAccountTrace", "	k.SetAccountVestingPools(ctx, accVestingPools)\n	if err == nil {\n		k.AppendVestingAccountTrace"))
fire("c05-avail-guard-deleted", "C05", ["C05.avail"],
     (VEST, "	if available.LT(amount) {", "	if available.IsNegative() {"))
fire("c05-avail-lte", "C05", ["C05.avail"],
     (VEST, "	if available.LT(amount) {", "	if available.LTE(amount) {"))
fire("c05-avail-initially-locked", "C05", ["C05.avail"],
     (VEST, "	available := vestingPool.GetCurrentlyLocked()\n\n	if available.LT(amount) {", "	available := vestingPool.GetCurrentlyLocked()\n\n	if vestingPool.InitiallyLocked.LT(amount) {"))
fire("c05-negative-amount-accepted", "C05", ["C05.avail"],
     ("x/cfevesting/types/message_send_to_vesting_account.go", """	if amount.IsNegative() {
		return nil, nil, errors.Wrap(ErrAmount, "send to new vesting account - amount is <= 0")
	}
""", ""))
fire("c05-withdrawn-other-source", "C05", ["C05.avail"],
     (VEST, "		vestingPool.Withdrawn = vestingPool.Withdrawn.Add(withdrawable)\n		toWithdraw = toWithdraw.Add(withdrawable)", "		withdrawable = vestingPool.GetCurrentlyLocked()\n		vestingPool.Withdrawn = vestingPool.Withdrawn.Add(withdrawable)\n		toWithdraw = toWithdraw.Add(withdrawable)"))
fire("c05-errprop-split-send-ignored", "C05", ["C05.errprop"],
     (SPLIT, "	if err = k.bank.SendCoins(ctx, from, toAddress, amount); err != nil {\n		return sdkerrors.Wrap(err, \"split vesting coins\")\n	}", "	_ = k.bank.SendCoins(ctx, from, toAddress, amount)"))
fire("c05-errprop-logged-only", "C05", ["C05.errprop"],
     (SPLIT, "	if err = k.bank.SendCoins(ctx, from, toAddress, amount); err != nil {\n		return sdkerrors.Wrap(err, \"split vesting coins\")\n	}", "	if err = k.bank.SendCoins(ctx, from, toAddress, amount); err != nil {\n		k.Logger(ctx).Error(err.Error())\n	}"))
fire("c05-gen-validation-not-fatal", "C05", ["C05.gen"],
     ("x/cfevesting/genesis.go", "	if err != nil {\n		panic(err)\n	}\n	// Set all the vestingAccount", "	if err != nil {\n		k.Logger(ctx).Error(err.Error())\n	}\n	// Set all the vestingAccount"))
fire("c05-gen-compare-dropped", "C05", ["C05.gen"],
     ("x/cfevesting/genesis.go", "	if !vestingPoolsAmount.Equal(modBalance.Amount) {", "	if vestingPoolsAmount.IsNegative() {"))
fire("c05-delete-reachable", "C05", ["C05.writers"],
     (VEST, "	if len(accVestingPools.VestingPools) == 0 {\n		k.Logger(ctx).Debug(\"withdraw all available no vesting pools in array error\", \"owner\", owner)", "	if len(accVestingPools.VestingPools) == 0 {\n		k.DeleteAccountVestingPools(ctx, owner)\n		k.Logger(ctx).Debug(\"withdraw all available no vesting pools in array error\", \"owner\", owner)"))
fire("c05-query-writes-ledger", "C05", ["C05.writers"],
     ("x/cfevesting/keeper/grpc_query_vesting_pools.go", "		current := vesting.GetCurrentlyLocked()", "		vesting.Withdrawn = vesting.Withdrawn.Add(withdrawable)\n		current := vesting.GetCurrentlyLocked()"))
silent("c05-avail-gt-form", "C05",
       (VEST, "	if available.LT(amount) {", "	if amount.GT(available) {"))
silent("c05-errors-wrap-other-pkg", "C05",
       (SPLIT, "	if err = k.bank.SendCoins(ctx, from, toAddress, amount); err != nil {\n		return sdkerrors.Wrap(err, \"split vesting coins\")\n	}", "	if err = k.bank.SendCoins(ctx, from, toAddress, amount); err != nil {\n		return sdkerrors.Wrapf(err, \"split vesting coins %s\", from)\n	}"))
silent("c05-withdraw-early-return", "C05",
       (VEST, "	if toWithdraw.GT(sdk.ZeroInt()) {\n		coinToSend := sdk.NewCoin(denom, toWithdraw)", "	if toWithdraw.IsPositive() {\n		coinToSend := sdk.NewCoin(denom, toWithdraw)"))

# ---------------- C06 ----------------
QPOOLS = "x/cfevesting/keeper/grpc_query_vesting_pools.go"
fire("c06-table-after-only", "C06", ["C06.table"],
     (VEST, "	if current.Equal(vestingPool.LockEnd) || current.After(vestingPool.LockEnd) {", "	if current.After(vestingPool.LockEnd) {"))
fire("c06-table-initially-locked", "C06", ["C06.table"],
     (VEST, "		return vestingPool.GetCurrentlyLocked()\n	}\n	return sdk.ZeroInt()", "		return vestingPool.InitiallyLocked\n	}\n	return sdk.ZeroInt()"))
fire("c06-table-before-pays", "C06", ["C06.table"],
     (VEST, "	if current.Equal(vestingPool.LockEnd) || current.After(vestingPool.LockEnd) {", "	if current.Equal(vestingPool.LockEnd) || current.After(vestingPool.LockStart) {"))
silent("c06-table-not-before", "C06",
       (VEST, "	if current.Equal(vestingPool.LockEnd) || current.After(vestingPool.LockEnd) {", "	if !current.Before(vestingPool.LockEnd) {"))
fire("c06-query-own-clock", "C06", ["C06.sameoracle"],
     (QPOOLS, "		withdrawable := CalculateWithdrawable(ctx.BlockTime(), *vesting)", "		withdrawable := CalculateWithdrawable(time.Now(), *vesting)"),
     (QPOOLS, "import (\n	\"context\"\n", "import (\n	\"context\"\n	\"time\"\n"))
fire("c06-query-own-comparison", "C06", ["C06.sameoracle"],
     (QPOOLS, "		withdrawable := CalculateWithdrawable(ctx.BlockTime(), *vesting)", "		withdrawable := vesting.InitiallyLocked.Sub(vesting.Sent)"))
fire("c06-outflow-without-account", "C06", ["C06.outflows"],
     (VEST, "	_, err := k.newContinuousVestingAccount(ctx, toAddress, originalVesting, startTime.Unix(), vestingEnd.Unix())\n	if err != nil {", "	var err error\n	if !originalVesting.IsZero() {\n		_, err = k.newContinuousVestingAccount(ctx, toAddress, originalVesting, startTime.Unix(), vestingEnd.Unix())\n	}\n	if err != nil {"))
fire("c06-extra-outflow", "C06", ["C06.outflows"],
     (VEST, "	k.SetAccountVestingPools(ctx, accVestingPools)\n	return nil\n}", "	k.SetAccountVestingPools(ctx, accVestingPools)\n	if amount.IsZero() {\n		return k.bank.SendCoinsFromModuleToAccount(ctx, types.ModuleName, accAddress, sdk.NewCoins(sdk.NewCoin(denom, balance.Amount)))\n	}\n	return nil\n}"))

# ---------------- C08 ----------------
fire("c08-swap-restart-branches", "C08", ["C08.schedule"],
     (VEST, "	if restartVesting {\n		err = k.newVestingAccount", "	if !restartVesting {\n		err = k.newVestingAccount"))
fire("c08-start-lockend-end-now", "C08", ["C08.schedule"],
     (VEST, "		err = k.newVestingAccount(ctx, toAccAddress, amount, vt.Free,\n			ctx.BlockTime().Add(vt.LockupPeriod), ctx.BlockTime().Add(vt.LockupPeriod).Add(vt.VestingPeriod))", "		err = k.newVestingAccount(ctx, toAccAddress, amount, vt.Free,\n			vestingPool.LockEnd, ctx.BlockTime().Add(vt.LockupPeriod).Add(vt.VestingPeriod))"))
fire("c08-end-without-vesting-period", "C08", ["C08.schedule"],
     (VEST, "ctx.BlockTime().Add(vt.LockupPeriod).Add(vt.VestingPeriod))", "ctx.BlockTime().Add(vt.LockupPeriod).Add(vt.LockupPeriod))"))
fire("c08-free-on-transfer", "C08", ["C08.same", "C08.vested"],
     (VEST, "	coinsToSend := sdk.NewCoins(coinToSend)\n	err = k.bank.SendCoinsFromModuleToAccount(ctx, types.ModuleName, toAddress, coinsToSend)", "	coinsToSend := sdk.NewCoins(sdk.NewCoin(denom, originalVestingAmount))\n	err = k.bank.SendCoinsFromModuleToAccount(ctx, types.ModuleName, toAddress, coinsToSend)"))
fire("c08-round-up", "C08", ["C08.vested"],
     (VEST, "originalVestingAmount := decimalAmount.Sub(decimalAmount.Mul(free)).TruncateInt()", "originalVestingAmount := decimalAmount.Sub(decimalAmount.Mul(free)).Ceil().TruncateInt()"))
fire("c08-ignore-free", "C08", ["C08.vested"],
     (VEST, "originalVestingAmount := decimalAmount.Sub(decimalAmount.Mul(free)).TruncateInt()", "originalVestingAmount := decimalAmount.TruncateInt()"))
fire("c08-start-always-now", "C08", ["C08.schedule"],
     (VEST, "	startTime := lockEnd\n	if lockEnd.Before(ctx.BlockTime()) {\n		startTime = ctx.BlockTime()\n	}", "	startTime := ctx.BlockTime()"))
fire("c08-start-min", "C08", ["C08.schedule"],
     (VEST, "	if lockEnd.Before(ctx.BlockTime()) {\n		startTime = ctx.BlockTime()", "	if lockEnd.After(ctx.BlockTime()) {\n		startTime = ctx.BlockTime()"))
fire("c08-direct-end-shifted", "C08", ["C08.schedule"],
     (VEST, "	acc, err := k.newContinuousVestingAccount(ctx, to, amount.Sort(), startTime, endTime)", "	acc, err := k.newContinuousVestingAccount(ctx, to, amount.Sort(), startTime, endTime+1)"))
fire("c08-direct-transfer-other", "C08", ["C08.same"],
     (VEST, "	err = bk.SendCoins(ctx, from, to, amount)", "	err = bk.SendCoins(ctx, from, to, amount.Add(amount...))"))
fire("c08-account-other-address", "C08", ["C08.fresh"],
     (VEST, "	baseAccount := k.account.NewAccountWithAddress(ctx, to)", "	baseAccount := k.account.NewAccountWithAddress(ctx, sdk.AccAddress(to.Bytes()[:1]))"))
fire("c08-account-start-swapped", "C08", ["C08.fresh"],
     (VEST, "	acc := vestingtypes.NewContinuousVestingAccountRaw(baseVestingAccount, startTime)", "	acc := vestingtypes.NewContinuousVestingAccountRaw(baseVestingAccount, vestingEnd)"))
silent("c08-times-named-first", "C08",
       (VEST, "		err = k.newVestingAccount(ctx, toAccAddress, amount, vt.Free,\n			ctx.BlockTime().Add(vt.LockupPeriod), ctx.BlockTime().Add(vt.LockupPeriod).Add(vt.VestingPeriod))", "		lockEnd := ctx.BlockTime().Add(vt.LockupPeriod)\n		vestEnd := lockEnd.Add(vt.VestingPeriod)\n		err = k.newVestingAccount(ctx, toAccAddress, amount, vt.Free, lockEnd, vestEnd)"))
silent("c08-max-reversed-operands", "C08",
       (VEST, "	startTime := lockEnd\n	if lockEnd.Before(ctx.BlockTime()) {\n		startTime = ctx.BlockTime()\n	}", "	startTime := ctx.BlockTime()\n	if !lockEnd.Before(ctx.BlockTime()) {\n		startTime = lockEnd\n	}"))
silent("c08-params-renamed", "C08",
       (VEST, "func (k Keeper) newVestingAccount(ctx sdk.Context, toAddress sdk.AccAddress, amount math.Int, free sdk.Dec,\n	lockEnd time.Time,\n	vestingEnd time.Time) error {", "func (k Keeper) newVestingAccount(ctx sdk.Context, toAddress sdk.AccAddress, amount math.Int, freeFraction sdk.Dec,\n	lockEnd time.Time,\n	vestingEnd time.Time) error {\n	free := freeFraction"))

# ---------------- C18 ----------------
fire("c18-withdraw-event-total", "C18", ["C18.amount", "C18.guard"],
     (VEST, "		if withdrawable.IsPositive() {\n			events = append(events, types.WithdrawAvailable{\n				Owner:           owner,\n				VestingPoolName: vestingPool.Name,\n				Amount:          withdrawable.String() + denom,",
      "		if toWithdraw.IsPositive() {\n			events = append(events, types.WithdrawAvailable{\n				Owner:           owner,\n				VestingPoolName: vestingPool.Name,\n				Amount:          toWithdraw.String() + denom,"))
fire("c18-withdraw-event-unguarded", "C18", ["C18.guard"],
     (VEST, "		if withdrawable.IsPositive() {\n			events = append(events", "		if !withdrawable.IsNegative() {\n			events = append(events"))
fire("c18-mint-event-constant", "C18", ["C18.amount"],
     ("x/cfeminter/abci.go", "		Amount:      amount.String(),", "		Amount:      k.GetMinterState(ctx).AmountMinted.String(),"))
fire("c18-distribution-event-inflow", "C18", ["C18.amount"],
     (DISTR, "				Destination:    &share.Destination,\n				Amount:         calculatedShare,", "				Destination:    &share.Destination,\n				Amount:         coinsToDistributeDec,"))
fire("c18-burn-event-default-share", "C18", ["C18.amount"],
     (DISTR, "				Sources:        subDistributor.Sources,\n				Amount:         calculatedShare,\n			}\n		}\n	}\n\n	accountDefault", "				Sources:        subDistributor.Sources,\n				Amount:         defaultShare,\n			}\n		}\n	}\n\n	accountDefault"))
fire("c18-send-event-other-amount", "C18", ["C18.amount"],
     (VEST, "			Amount:          amount.String() + k.Denom(ctx),", "			Amount:          available.String() + k.Denom(ctx),"))
fire("c18-send-event-on-failure", "C18", ["C18.guard"],
     (VEST, "	if err == nil {\n		k.SetAccountVestingPools(ctx, accVestingPools)\n		k.AppendVestingAccountTrace(ctx, types.VestingAccountTrace{\n			Address:            toAccAddress.String(),\n			Genesis:            false,\n			FromGenesisPool:    vestingPool.GenesisPool,\n			FromGenesisAccount: false,\n		})\n",
      "	if err == nil {\n		k.SetAccountVestingPools(ctx, accVestingPools)\n		k.AppendVestingAccountTrace(ctx, types.VestingAccountTrace{\n			Address:            toAccAddress.String(),\n			Genesis:            false,\n			FromGenesisPool:    vestingPool.GenesisPool,\n			FromGenesisAccount: false,\n		})\n	}\n	{\n"))
fire("c18-pool-event-other-amount", "C18", ["C18.amount"],
     ("x/cfevesting/keeper/msg_server_create_vesting_pool.go", "		Amount:      msg.Amount.String() + denom,", "		Amount:      msg.Amount.AddRaw(1).String() + denom,"))
silent("c18-mint-event-local", "C18",
       ("x/cfeminter/abci.go", "		Amount:      amount.String(),", "		Amount:      amount.String() + \"\","))

# ---------------- C17 ----------------
SUMM = "x/cfevesting/keeper/grpc_query_vestings_summary.go"
fire("c17-pool-flag-false", "C17", ["C17.pool"],
     (VEST, "			FromGenesisPool:    vestingPool.GenesisPool,", "			FromGenesisPool:    false,"))
fire("c17-pool-trace-owner", "C17", ["C17.pool"],
     (VEST, "			Address:            toAccAddress.String(),\n			Genesis:            false,\n			FromGenesisPool:    vestingPool.GenesisPool,", "			Address:            owner,\n			Genesis:            false,\n			FromGenesisPool:    vestingPool.GenesisPool,"))
fire("c17-split-drop-genesis", "C17", ["C17.split"],
     (SPLIT, "			FromGenesisAccount: vAcc.Genesis || vAcc.FromGenesisAccount,", "			FromGenesisAccount: vAcc.FromGenesisAccount,"))
fire("c17-split-and", "C17", ["C17.split"],
     (SPLIT, "			FromGenesisAccount: vAcc.Genesis || vAcc.FromGenesisAccount,", "			FromGenesisAccount: vAcc.Genesis && vAcc.FromGenesisAccount,"))
fire("c17-split-pool-flag-lost", "C17", ["C17.split"],
     (SPLIT, "			FromGenesisPool:    vAcc.FromGenesisPool,", "			FromGenesisPool:    vAcc.Genesis,"))
fire("c17-split-always-append", "C17", ["C17.split"],
     (SPLIT, "	if found {\n		k.AppendVestingAccountTrace", "	if found || vAcc.Id == 0 {\n		k.AppendVestingAccountTrace"))
fire("c17-extra-trace-writer", "C17", ["C17.only"],
     (VEST, "	k.Logger(ctx).Debug(\"append vesting account\", \"address\", acc.Address)\n	return nil", "	k.AppendVestingAccountTrace(ctx, types.VestingAccountTrace{Address: acc.Address, Genesis: true})\n	return nil"))
fire("c17-summary-delegated-reversed", "C17", ["C17.summary"],
     (SUMM, "		DelegatedVestingAmount:  allVestingInAccounts.Sub(allLockedNotDelegated),", "		DelegatedVestingAmount:  allLockedNotDelegated.Sub(allVestingInAccounts),"))
fire("c17-summary-all-accounts-only", "C17", ["C17.summary"],
     (SUMM, "		VestingAllAmount:        allVestingInAccounts.Add(vestingInPoolsAmount),", "		VestingAllAmount:        allVestingInAccounts,"))
fire("c17-summary-genesis-filter-partial", "C17", ["C17.summary"],
     ("x/cfevesting/types/vesting_account.go", "	return v.Genesis || v.FromGenesisAccount || v.FromGenesisPool", "	return v.Genesis || v.FromGenesisAccount"))
fire("c17-summary-locked-for-vesting", "C17", ["C17.summary"],
     (SUMM, "			allVestingInAccounts = allVestingInAccounts.Add(vestingCoins.AmountOf(denom))", "			_ = vestingCoins\n			allVestingInAccounts = allVestingInAccounts.Add(lockedCoins.AmountOf(denom))"))
fire("c17-genesis-amount-all-pools", "C17", ["C17.summary"],
     ("x/cfevesting/types/account_vesting_pool.go", "			if vp.GenesisPool {\n				result = result.Add(vp.GetCurrentlyLocked())\n			}", "			result = result.Add(vp.GetCurrentlyLocked())"))
silent("c17-split-or-swapped", "C17",
       (SPLIT, "			FromGenesisAccount: vAcc.Genesis || vAcc.FromGenesisAccount,", "			FromGenesisAccount: vAcc.FromGenesisAccount || vAcc.Genesis,"))
silent("c17-summary-add-swapped", "C17",
       (SUMM, "		VestingAllAmount:        allVestingInAccounts.Add(vestingInPoolsAmount),", "		VestingAllAmount:        vestingInPoolsAmount.Add(allVestingInAccounts),"))

# ---------------- C07 ----------------
UNLOCK = "x/cfevesting/keeper/vesting_account_split.go"
fire("c07-recipient-start-now", "C07", ["C07.recipient"],
     (SPLIT, "	startTime := ctx.BlockTime().Unix()\n	if vestingAcc.StartTime > startTime {\n		startTime = vestingAcc.StartTime\n	}", "	startTime := ctx.BlockTime().Unix()"))
fire("c07-recipient-end-shifted", "C07", ["C07.recipient"],
     (SPLIT, "k.newContinuousVestingAccount(ctx, toAddress, amount, startTime, vestingAcc.EndTime)", "k.newContinuousVestingAccount(ctx, toAddress, amount, startTime, ctx.BlockTime().Unix()+31536000)"))
fire("c07-recipient-start-min", "C07", ["C07.recipient"],
     (SPLIT, "	if vestingAcc.StartTime > startTime {", "	if vestingAcc.StartTime < startTime {"))
fire("c07-transfer-double", "C07", ["C07.transfer"],
     (SPLIT, "k.bank.SendCoins(ctx, from, toAddress, amount)", "k.bank.SendCoins(ctx, from, toAddress, amount.Add(amount...))"))
fire("c07-recipient-vests-other", "C07", ["C07.recipient"],
     (SPLIT, "k.newContinuousVestingAccount(ctx, toAddress, amount, startTime, vestingAcc.EndTime)", "k.newContinuousVestingAccount(ctx, toAddress, vestingAcc.OriginalVesting, startTime, vestingAcc.EndTime)"))
fire("c07-guard-deleted", "C07", ["C07.guard"],
     (UNLOCK, "	if !amountToUnlock.IsAllLTE(lockedCoins) {", "	if amountToUnlock.IsAnyNegative() {"))
fire("c07-guard-vesting-instead-of-locked", "C07", ["C07.guard"],
     (UNLOCK, "	lockedCoins := vestingAcc.LockedCoins(ctx.BlockTime())", "	lockedCoins := vestingAcc.GetVestingCoins(ctx.BlockTime())"))
fire("c07-writes-endtime", "C07", ["C07.writes"],
     (UNLOCK, "	k.account.SetAccount(ctx, vestingAcc)\n	return vestingAcc, nil", "	vestingAcc.EndTime = vestingAcc.EndTime - 1\n	k.account.SetAccount(ctx, vestingAcc)\n	return vestingAcc, nil"))
fire("c07-move-all-balance", "C07", ["C07.move"],
     ("x/cfevesting/keeper/msg_server_move_available_vesting.go", "	amount := k.bank.LockedCoins(ctx, fromAccAddress)", "	amount := k.bank.GetAllBalances(ctx, fromAccAddress)"))
fire("c07-move-locked-of-recipient", "C07", ["C07.move"],
     ("x/cfevesting/keeper/msg_server_move_available_vesting_by_denoms.go", "	locked := k.bank.LockedCoins(ctx, fromAccAddress)", "	locked := k.bank.LockedCoins(ctx, toAccAddress)"))
silent("c07-max-reversed", "C07",
       (SPLIT, "	startTime := ctx.BlockTime().Unix()\n	if vestingAcc.StartTime > startTime {\n		startTime = vestingAcc.StartTime\n	}", "	startTime := vestingAcc.StartTime\n	if now := ctx.BlockTime().Unix(); now >= startTime {\n		startTime = now\n	}"))

# ---------------- C09 ----------------
CRACC = "x/cfesignature/keeper/msg_server_create_account.go"
fire("c09-guard-deleted-newvestingaccount", "C09", ["C09.fresh"],
     (VEST, "	if acc := ak.GetAccount(ctx, toAddress); acc != nil {\n		k.Logger(ctx).Debug(\"new vesting account account already exists error\", \"toAddress\", toAddress)\n		return sdkerrors.Wrapf(types.ErrAlreadyExists, \"new vesting account - account address: %s\", toAddress)\n	}\n", "	_ = ak\n"))
fire("c09-guard-deleted-split", "C09", ["C09.fresh"],
     (SPLIT, "	if acc := k.account.GetAccount(ctx, toAddress); acc != nil {\n		k.Logger(ctx).Debug(\"split vesting coins - to account already exists error\", \"toAddress\", toAddress)\n		return sdkerrors.Wrapf(types.ErrAlreadyExists, \"split vesting coins - account address: %s\", toAddress)\n	}\n", ""))
fire("c09-guard-other-address", "C09", ["C09.fresh"],
     (SPLIT, "	if acc := k.account.GetAccount(ctx, toAddress); acc != nil {", "	if acc := k.account.GetAccount(ctx, from); acc == nil {"))
fire("c09-createaccount-guard-deleted", "C09", ["C09.fresh"],
     (CRACC, "	if acc := k.authKeeper.GetAccount(ctx, accAddress); acc != nil {\n		k.Logger(ctx).Debug(\"create account - account already exists\", \"address\", msg.AccAddressString)\n		return nil, sdkerrors.Wrapf(sdkerrors.ErrInvalidRequest, \"account %s already exists\", msg.AccAddressString)\n	}\n", "	_ = sdkerrors.ErrInvalidRequest\n"))
fire("c09-guard-logs-only", "C09", ["C09.fresh"],
     (VEST, "	if acc := ak.GetAccount(ctx, to); acc != nil {\n		k.Logger(ctx).Debug(\"create vesting account account already exists error\", \"toAddress\", toAddress)\n		return sdkerrors.Wrapf(types.ErrAlreadyExists, \"create vesting account - account address: %s\", toAddress)\n	}", "	if acc := ak.GetAccount(ctx, to); acc != nil {\n		k.Logger(ctx).Debug(\"create vesting account account already exists error\", \"toAddress\", toAddress)\n	}"))
fire("c09-unlock-to-address", "C09", ["C09.self"],
     (SPLIT, "	vestingAcc, err := k.UnlockUnbondedContinuousVestingAccountCoins(ctx, from, amount)", "	vestingAcc, err := k.UnlockUnbondedContinuousVestingAccountCoins(ctx, toAddress, amount)"))
fire("c09-unlock-writes-delegated", "C09", ["C09.self"],
     (UNLOCK, "	k.account.SetAccount(ctx, vestingAcc)\n	return vestingAcc, nil", "	vestingAcc.DelegatedVesting = sdk.NewCoins()\n	k.account.SetAccount(ctx, vestingAcc)\n	return vestingAcc, nil"))
silent("c09-guard-helper", "C09",
       (SPLIT, "	if acc := k.account.GetAccount(ctx, toAddress); acc != nil {", "	acc := k.account.GetAccount(ctx, toAddress)\n	if acc != nil {"))

# ---------------- C10 ----------------
DISTYPES = "x/cfedistributor/types/sub_distributor.go"
MINTYPES = "x/cfeminter/types/minter.go"
fire("c10-unguarded-int64", "C10", ["C10.inventory"],
     ("x/cfeminter/abci.go", "	if amount.IsInt64() {\n		defer telemetry.SetGaugeWithLabels(", "	if !amount.IsNegative() {\n		defer telemetry.SetGaugeWithLabels("))
fire("c10-f15-reintroduced", "C10", ["C10.inventory"],
     (DISTR, "		if traced := toSend.AmountOf(types.DenomToTrace); traced.IsInt64() {\n			defer telemetry.SetGaugeWithLabels(\n				[]string{types.ModuleName, \"coin_send\", types.BurnDestination},", "		if traced := toSend.AmountOf(types.DenomToTrace); !traced.IsNil() {\n			defer telemetry.SetGaugeWithLabels(\n				[]string{types.ModuleName, \"coin_send\", types.BurnDestination},"))
fire("c10-panic-on-transfer-error", "C10", ["C10.inventory", "C10.swallow"],
     (DISTR, "		ctx.Logger().Error(\"burn coins error\", \"state\", state, \"error\", err.Error())\n", "		panic(err)\n"))
fire("c10-quo-unvalidated-field", "C10", ["C10.inventory"],
     (MINTYPES, "	if m.StepDuration <= 0 {\n		return fmt.Errorf(\"stepDuration must be bigger than 0\")\n	}\n", ""))
fire("c10-f16-reintroduced", "C10", ["C10.inventory"],
     (MINTYPES, "	if err := sdk.ValidateDenom(params.MintDenom); err != nil {\n		return fmt.Errorf(\"denom is not valid: %w\", err)\n	}\n", ""))
fire("c10-negative-guard-removed", "C10", ["C10.inventory"],
     (MINT, "	if amount.IsNegative() {\n		k.Logger(ctx).Error(\"mint negative amount\"", "	if amount.IsZero() {\n		k.Logger(ctx).Error(\"mint negative amount\""))
fire("c10-f8-reintroduced", "C10", ["C10.maybenil"],
     (DISTR, "		if state.Account == nil {\n			continue\n		}\n", ""))
fire("c10-f8-type-deref", "C10", ["C10.maybenil"],
     (DISTR, "		if types.InternalAccount != state.Account.GetType() && checkIfAnyCoinIsGTE1(state.Remains) {", "		if types.InternalAccount != state.Account.Type && checkIfAnyCoinIsGTE1(state.Remains) {"))
fire("c10-currentperiod-genesis", "C10", ["C10.currentperiod"],
     ("x/cfeminter/types/genesis.go", "	if !gs.Params.ContainsMinter(gs.MinterState.SequenceId) {", "	if len(gs.Params.Minters) == 0 {"))
fire("c10-perm-removed-burner", "C10", ["C10.inventory"],
     ("app/app.go", "		cfedistributormoduletypes.DistributorMainAccount:      {authtypes.Burner},", "		cfedistributormoduletypes.DistributorMainAccount:      nil,"))
fire("c10-perm-membership-removed", "C10", ["C10.perm", "C10.inventory"],
     (DISTYPES, "		if !accountExistInMacPerms(account.Id) {\n			return fmt.Errorf(\"module account \\\"%s\\\" doesn't exist in maccPerms\", account.Id)\n		}", "		if account.Id == \"\" {\n			return fmt.Errorf(\"module account \\\"%s\\\" doesn't exist in maccPerms\", account.Id)\n		}"))
fire("c10-collector-unregistered", "C10", ["C10.inventory"],
     ("app/app.go", "		app.StakingKeeper,\n		cfedistributormoduletypes.DistributorMainAccount,", "		app.StakingKeeper,\n		\"some_unregistered_collector\","))
silent("c10-int64-guard-helper-var", "C10",
       ("x/cfeminter/abci.go", "	if amount.IsInt64() {\n		defer telemetry.SetGaugeWithLabels(", "	fits := amount.IsInt64()\n	if fits {\n		defer telemetry.SetGaugeWithLabels("))
silent("c10-maccperms-reordered", "C10",
       ("app/app.go", "		cfedistributormoduletypes.ValidatorsRewardsCollector:  nil,\n		cfedistributormoduletypes.GreenEnergyBoosterCollector: nil,", "		cfedistributormoduletypes.GreenEnergyBoosterCollector: nil,\n		cfedistributormoduletypes.ValidatorsRewardsCollector:  nil,"))

# ---------------- C03 / C04 / C14 ----------------
fire("c03-inflow-no-sub", "C03", ["C03.inflow"],
     (DISTR, "		coinsToDistribute = coinsToDistribute.Sub(sum).Sub(alreadyCollected)", "		_ = sum\n		coinsToDistribute = coinsToDistribute.Sub(alreadyCollected)"))
fire("c03-inflow-partial-sum", "C03", ["C03.inflow"],
     (DISTR, "		sum := getRamainsSum(&states)", "		firstOnly := states[:1]\n		sum := getRamainsSum(&firstOnly)"))
fire("c03-conserve-sub-deleted", ["C03", "C04"], ["C03.conserve"],
     (DISTR, "		calculatedShare := calculatePercentage(subDistributor.Destinations.BurnShare, coinsToDistributeDec)\n		defaultShare = defaultShare.Sub(calculatedShare)", "		calculatedShare := calculatePercentage(subDistributor.Destinations.BurnShare, coinsToDistributeDec)"))
fire("c03-conserve-mul-round", "C03", ["C03.conserve"],
     (DISTR, "	return coinsToDistributeDec.MulDecTruncate(sharePercent)", "	return coinsToDistributeDec.MulDec(sharePercent)"))
fire("c03-persist-continue", ["C03", "C14"], ["C03.persist", "C14.persist"],
     (DISTR, "			} else {\n				k.sendCoinsToBaseAccount(ctx, &state)\n			}\n		}\n		k.SetState(ctx, state)", "			} else {\n				k.sendCoinsToBaseAccount(ctx, &state)\n				if state.Remains.IsZero() {\n					continue\n				}\n			}\n		}\n		k.SetState(ctx, state)"))
fire("c03-f9-reintroduced", ["C03", "C04"], ["C03.order", "C04.order"],
     (DISTR, "		coinsToDistribute = coinsToDistribute.Sub(sum).Sub(alreadyCollected)", "		coinsToDistribute = coinsToDistribute.Sub(sum)"))
fire("c04-f11-reintroduced", "C04", ["C04.key"],
     (DISTR, "		if state.Account.Type != account.Type {\n			continue\n		}\n", ""))
fire("c04-f10-reintroduced", "C04", ["C04.everyshare"],
     (DISTR, "		calculatedShare := calculatePercentage(share.Share, coinsToDistributeDec)\n		defaultShare = defaultShare.Sub(calculatedShare)\n		if share.Destination.Type == types.Main {\n			continue\n		}", "		if share.Destination.Type == types.Main {\n			continue\n		}\n		calculatedShare := calculatePercentage(share.Share, coinsToDistributeDec)\n		defaultShare = defaultShare.Sub(calculatedShare)"))
fire("c04-fraction-of-remainder", "C04", ["C04.fraction"],
     (DISTR, "		calculatedShare := calculatePercentage(share.Share, coinsToDistributeDec)", "		calculatedShare := calculatePercentage(share.Share, defaultShare)"))
fire("c04-share-to-primary-dest", "C04", ["C04.fraction"],
     (DISTR, "			localRemains = k.addSharesToAccountState(ctx, localRemains, &share.Destination, calculatedShare, findFunc)", "			localRemains = k.addSharesToAccountState(ctx, localRemains, &subDistributor.Destinations.PrimaryShare, calculatedShare, findFunc)"))
fire("c14-remains-before-check", "C14", ["C14.success"],
     (DISTR, "	if err := k.SendCoinsFromModuleToModule(ctx, toSend, types.DistributorMainAccount, state.Account.Id); err != nil {\n		ctx.Logger().Error(\"send coins to module account dst error\"", "	state.Remains = change\n	if err := k.SendCoinsFromModuleToModule(ctx, toSend, types.DistributorMainAccount, state.Account.Id); err != nil {\n		ctx.Logger().Error(\"send coins to module account dst error\""))
fire("c14-sweep-reports-on-failure", "C14", ["C14.sweep"],
     (DISTR, "			k.Logger(ctx).Error(\"prep coins module - send coins to main account\", \"subDistributorName\", subDistributorName, \"source\", source, \"error\", err.Error())\n			return nil", "			k.Logger(ctx).Error(\"prep coins module - send coins to main account\", \"subDistributorName\", subDistributorName, \"source\", source, \"error\", err.Error())\n			return coinsToDistribute"))
fire("c14-error-escalates", "C14", ["C14.noerrorexit"],
     (DISTR, "			k.Logger(ctx).Error(\"prepare coin to distribute for internal account error\", \"error\", err.Error())\n			return nil", "			panic(err)"))
silent("c03-sum-inline", ["C03", "C04", "C14"],
       (DISTR, "		sum := getRamainsSum(&states)\n		// coins collected from the other sources of this sub-distributor already sit in the main account\n		coinsToDistribute = coinsToDistribute.Sub(sum).Sub(alreadyCollected)", "		coinsToDistribute = coinsToDistribute.Sub(getRamainsSum(&states)).Sub(alreadyCollected)"))
silent("c04-key-via-accountkey", "C04",
       (DISTR, "		if state.Account.Type != account.Type {\n			continue\n		}\n", "		if state.Account.GetAccountKey() != account.GetAccountKey() {\n			continue\n		}\n"))

# ---------------- C20 ----------------
fire("c20-f4-reintroduced-vb", "C20", ["C20.nilfield"],
     ("x/cfedistributor/types/message_update_params.go", "	if msg.SubDistributor == nil {\n		return errors.Wrapf(govtypes.ErrInvalidProposalContent, \"validation error: sub distributor cannot be nil\")\n	}\n", ""))
fire("c20-isnil-guard-deleted", "C20", ["C20.nilfield"],
     ("x/cfevesting/types/message_create_vesting_pool.go", "	if amount.IsNil() {\n		return nil, errors.Wrap(ErrAmount, \"add vesting pool - amount cannot be nil\")\n	}\n", ""),
     ("x/cfevesting/keeper/msg_server_create_vesting_pool.go", "	if msg.Amount.IsNil() {\n		return nil, sdkerrors.Wrap(types.ErrParam, \"add vesting pool - amount is nil\")\n	}\n", "	_ = sdkerrors.Wrap\n"))
fire("c20-f7-reintroduced", "C20", ["C20.nilresult"],
     ("x/cfesignature/keeper/grpc_query_get_account_info.go", "	pubKey := \"\"\n	if pk := accountInfo.GetPubKey(); pk != nil {\n		pubKey = pk.String()\n	}", "	pubKey := accountInfo.GetPubKey().String()"))
fire("c20-f3-reintroduced", "C20", ["C20.nilness"],
     (VEST, "			k.Logger(ctx).Error(\"new vesting account from vesting pool emit event error\", \"error\", eventErr.Error())", "			k.Logger(ctx).Error(\"new vesting account from vesting pool emit event error\", \"error\", err.Error())"))
fire("c20-f20-reintroduced", "C20", ["C20.inventory"],
     ("x/cfesignature/keeper/msg_server_store_signature.go", "	if len(msg.StorageKey) == 0 {\n		return nil, sdkerrors.Wrap(sdkerrors.ErrInvalidRequest, \"storage key cannot be empty\")\n	}\n", ""))
silent("c20-key-guard-moved-to-validatebasic", "C20",
     ("x/cfesignature/keeper/msg_server_store_signature.go", "	if len(msg.StorageKey) == 0 {\n		return nil, sdkerrors.Wrap(sdkerrors.ErrInvalidRequest, \"storage key cannot be empty\")\n	}\n", ""),
     ("x/cfesignature/types/message_store_signature.go", "		return sdkerrors.Wrapf(sdkerrors.ErrInvalidAddress, \"invalid creator address (%s)\", err)\n	}\n	return nil", "		return sdkerrors.Wrapf(sdkerrors.ErrInvalidAddress, \"invalid creator address (%s)\", err)\n	}\n	if len(msg.StorageKey) == 0 {\n		return sdkerrors.Wrap(sdkerrors.ErrInvalidRequest, \"storage key cannot be empty\")\n	}\n	return nil"))
fire("c20-f5-reintroduced", "C20", ["C20.inventory"],
     ("x/cfevesting/types/message_move_available_vesting_by_denoms.go", "		if err := sdk.ValidateDenom(denom); err != nil {\n			return nil, nil, errors.Wrapf(ErrParam, \"move available vesting by denoms - invalid denomination at position %d: %s\", i, err)\n		}\n", ""))
fire("c20-signers-unvalidated", "C20", ["C20.signers"],
     ("x/cfevesting/types/message_withdraw_all_available.go", "func (msg *MsgWithdrawAllAvailable) ValidateBasic() error {", "func (msg *MsgWithdrawAllAvailable) ValidateBasic() error {\n	if len(msg.Owner) > 0 {\n		return nil\n	}"))
fire("c20-must-on-input", "C20", ["C20.inventory"],
     ("x/cfesignature/keeper/grpc_query_get_account_info.go", "	accAddress, _ := sdk.AccAddressFromBech32(req.AccAddressString)", "	accAddress := sdk.MustAccAddressFromBech32(req.AccAddressString)"))
fire("c20-type-assert-unchecked", "C20", ["C20.inventory"],
     ("x/cfevesting/keeper/grpc_query_vestings_summary.go", "		if continuousVestingAccount, ok := vestingAccount.(*vestingtypes.ContinuousVestingAccount); ok {", "		ok := vestingAccount != nil\n		if continuousVestingAccount := vestingAccount.(*vestingtypes.ContinuousVestingAccount); ok {"))
silent("c20-nil-check-switch-form", "C20",
       ("x/cfedistributor/types/message_update_params.go", "	if msg.SubDistributor == nil {\n		return errors.Wrapf(govtypes.ErrInvalidProposalContent, \"validation error: sub distributor cannot be nil\")\n	}\n", "	switch {\n	case msg.SubDistributor == nil:\n		return errors.Wrapf(govtypes.ErrInvalidProposalContent, \"validation error: sub distributor cannot be nil\")\n	}\n"))

# ---------------- C02 ----------------
fire("c02-per-block-delta", "C02", ["C02.fromscratch"],
     (MINT, "	amount := expectedAmountToMint.TruncateInt().Sub(minterState.AmountMinted)", "	amount := expectedAmountToMint.TruncateInt().Sub(minterState.AmountMinted)\n	if ctx.BlockTime().Sub(minterState.LastMintBlockTime) > time.Hour {\n		amount = amount.QuoRaw(2)\n	}"))
fire("c02-round-up", "C02", ["C02.fromscratch"],
     (MINT, "	amount := expectedAmountToMint.TruncateInt().Sub(minterState.AmountMinted)", "	amount := expectedAmountToMint.Ceil().TruncateInt().Sub(minterState.AmountMinted)"))
fire("c02-ignore-remainder", "C02", ["C02.fromscratch"],
     (MINT, "	expectedAmountToMint = expectedAmountToMint.Add(minterState.RemainderFromPreviousMinter)\n", ""))
fire("c02-nonneg-deleted", "C02", ["C02.nonneg"],
     (MINT, "	if amount.IsNegative() {\n		k.Logger(ctx).Error(\"mint negative amount\"", "	if amount.IsNil() {\n		k.Logger(ctx).Error(\"mint negative amount\""))
silent("c02-nonneg-wrapped", "C02",
       (MINT, "	if amount.IsNegative() {\n		k.Logger(ctx).Error(\"mint negative amount\"", "	if !(amount.IsZero() || amount.IsPositive()) {\n		k.Logger(ctx).Error(\"mint negative amount\""))
fire("c02-handover-flipped", "C02", ["C02.boundaries"],
     (MINT, "	if currentMinter.EndTime == nil || ctx.BlockTime().Before(*currentMinter.EndTime) {", "	if currentMinter.EndTime == nil || ctx.BlockTime().After(*currentMinter.EndTime) {"))
fire("c02-start-guard-dropped", "C02", ["C02.boundaries"],
     (MINT, "	if lastBlockTime.Before(params.StartTime) {", "	if lastBlockTime.IsZero() {"))
fire("c02-linear-after-before", "C02", ["C02.boundaries"],
     (MINTYPES, "	if blockTime.After(*endTime) {\n		return sdk.NewDecFromInt(m.Amount)\n	}", "	if blockTime.Before(*endTime) {\n		return sdk.NewDecFromInt(m.Amount)\n	}"))
fire("c02-exp-not-capped", "C02", ["C02.boundaries"],
     (MINTYPES, "	if endTime != nil && blockTime.After(*endTime) {\n		now = *endTime\n	}\n	passedTime := int64(now.Sub(startTime))", "	if endTime != nil && blockTime.Before(*endTime) {\n		now = *endTime\n	}\n	passedTime := int64(now.Sub(startTime))"))
silent("c02-handover-not-before-form", "C02",
       (MINT, "	if currentMinter.EndTime == nil || ctx.BlockTime().Before(*currentMinter.EndTime) {", "	if currentMinter.EndTime == nil || !(ctx.BlockTime().After(*currentMinter.EndTime) || ctx.BlockTime().Equal(*currentMinter.EndTime)) {"))
silent("c02-handover-at-not-after", "C02",
       (MINT, "	if currentMinter.EndTime == nil || ctx.BlockTime().Before(*currentMinter.EndTime) {", "	if currentMinter.EndTime == nil || !ctx.BlockTime().After(*currentMinter.EndTime) {"))
fire("c02-carry-remainder-zero", "C02", ["C02.carry"],
     (MINT, "			RemainderFromPreviousMinter: remainder,", "			RemainderFromPreviousMinter: sdk.ZeroDec(),"))
fire("c02-carry-same-sequence", "C02", ["C02.carry"],
     (MINT, "			SequenceId:                  minterState.SequenceId + 1,", "			SequenceId:                  minterState.SequenceId,"))
fire("c02-carry-result-drops-amount", "C02", ["C02.carry"],
     (MINT, "		result = minted.Add(amount)", "		result = minted"))
fire("c02-history-omitted", "C02", ["C02.boundaries"],
     (MINT, "		k.SetMinterStateHistory(ctx, minterState)\n", ""))
fire("c02-start-always-params", "C02", ["C02.start"],
     (MINT, "	if previousMinter == nil {\n		startTime = params.StartTime\n	} else {\n		startTime = *previousMinter.EndTime\n	}\n\n	expectedAmountToMint", "	if previousMinter != nil {\n		startTime = params.StartTime\n	} else {\n		startTime = params.StartTime\n	}\n\n	expectedAmountToMint"))
fire("c02-inflation-other-start", "C02", ["C02.start"],
     ("x/cfeminter/keeper/keeper.go", "	if previousMinter == nil {\n		startTime = params.StartTime\n	} else {\n		startTime = *previousMinter.EndTime\n	}", "	if previousMinter == nil {\n		startTime = params.StartTime\n	} else {\n		startTime = *currentMinter.EndTime\n	}"))
silent("c02-remainder-recomputed", "C02",
       (MINT, "	remainder := expectedAmountToMint.Sub(expectedAmountToMint.TruncateDec())", "	truncated := expectedAmountToMint.TruncateDec()\n	remainder := expectedAmountToMint.Sub(truncated)"))

# ---------------- C15 ----------------
VERSIG = "x/cfesignature/keeper/grpc_query_verify_signature.go"
PUBL = "x/cfesignature/keeper/msg_server_publish_reference_payload_link.go"
SIGK = "x/cfesignature/keeper/signature.go"
fire("c15-writeonce-guard-deleted", "C15", ["C15.writeonce"],
     (PUBL, "	if !(k.checkIfPayloadLinkExists(ctx, msg.Key)) {\n		return nil, sdkerrors.Wrap(sdkerrors.ErrInvalidRequest, \"data was found at the given key, cannot overwrite present payloadlinks\")\n	}\n", ""))
fire("c15-writeonce-guard-inverted", "C15", ["C15.writeonce"],
     (PUBL, "	if !(k.checkIfPayloadLinkExists(ctx, msg.Key)) {", "	if k.checkIfPayloadLinkExists(ctx, msg.Key) {"))
fire("c15-writeonce-other-key", "C15", ["C15.writeonce"],
     (PUBL, "	if !(k.checkIfPayloadLinkExists(ctx, msg.Key)) {", "	if !(k.checkIfPayloadLinkExists(ctx, msg.Value)) {"))
fire("c15-delete-added", "C15", ["C15.writeonce"],
     (SIGK, "func getStoreKeyBytes(ID string) []byte {", "func (k Keeper) RemovePayloadLink(ctx sdk.Context, key string) {\n	store := prefix.NewStore(ctx.KVStore(k.storeKey), []byte(types.PayloadLinkKey))\n	store.Delete(getStoreKeyBytes(key))\n}\n\nfunc getStoreKeyBytes(ID string) []byte {"))
fire("c15-second-writer", "C15", ["C15.writeonce"],
     (SIGK, "func getStoreKeyBytes(ID string) []byte {", "func (k Keeper) ReplacePayloadLink(ctx sdk.Context, key string, value string) {\n	store := prefix.NewStore(ctx.KVStore(k.storeKey), []byte(types.PayloadLinkKey))\n	store.Set(getStoreKeyBytes(key), []byte(value))\n}\n\nfunc getStoreKeyBytes(ID string) []byte {"))
silent("c15-helper-renamed-true-meaning", "C15",
       (PUBL, "	if !(k.checkIfPayloadLinkExists(ctx, msg.Key)) {", "	if free := k.checkIfPayloadLinkExists(ctx, msg.Key); !free {"))
fire("c15-payload-swapped", "C15", ["C15.payload"],
     (VERSIG, "util.CalculateHash(util.HashConcat(targetAccAddress, referenceId, referencePayloadLink))", "util.CalculateHash(util.HashConcat(referenceId, targetAccAddress, referencePayloadLink))"))
fire("c15-payload-without-link", "C15", ["C15.payload"],
     (VERSIG, "util.CalculateHash(util.HashConcat(targetAccAddress, referenceId, referencePayloadLink))", "util.CalculateHash(util.HashConcat(targetAccAddress, referenceId, referenceId+referencePayloadLink[:0]))"))
fire("c15-args-cert-as-signature", "C15", ["C15.args"],
     (VERSIG, "signaturePayload, signature.Signature, signature.Algorithm, signature.Certificate)", "signaturePayload, signature.Certificate, signature.Algorithm, signature.Certificate)"))
fire("c15-verdict-ignored", "C15", ["C15.verdict"],
     (VERSIG, "	if validationError != nil {\n		// it is safe to forward local errors\n		return nil, validationError\n	}\n", "	_ = validationError\n"))
fire("c15-verifier-always-ok", "C15", ["C15.verdict"],
     (VERSIG, "		return sdkerrors.Wrap(sdkerrors.ErrInvalidRequest, \"signature validation failed\")\n	}", "		ctxLog := sdkerrors.Wrap(sdkerrors.ErrInvalidRequest, \"signature validation failed\")\n		_ = ctxLog\n	}"))
fire("c15-f2-reintroduced", "C15", ["C15.fields"],
     (VERSIG, "Certificate: signature.Certificate,", "Certificate: signature.Signature,"))
fire("c15-fields-swapped", "C15", ["C15.fields"],
     (VERSIG, "Signature: signature.Signature, Algorithm: signature.Algorithm,", "Signature: signature.Algorithm, Algorithm: signature.Signature,"))
silent("c15-args-bound-first", "C15",
       (VERSIG, "	validationError := k.isValidSignature(goCtx, targetAccAddress, signaturePayload, signature.Signature, signature.Algorithm, signature.Certificate)", "	sig, alg, cert := signature.Signature, signature.Algorithm, signature.Certificate\n	validationError := k.isValidSignature(goCtx, targetAccAddress, signaturePayload, sig, alg, cert)"))

# ---------------- C19 ----------------
fire("c19-start-guard-dropped", "C19", ["C19.zero"],
     (MINTYPES, "	if startTime.After(blockTime) {\n		return sdk.ZeroDec()\n	}\n	minterConfig, _ := m.GetMinterConfig()\n	return minterConfig.CalculateInflation", "	minterConfig, _ := m.GetMinterConfig()\n	return minterConfig.CalculateInflation"))
fire("c19-f19-reintroduced", "C19", ["C19.zero"],
     (MINTYPES, "	if endTime != nil && (blockTime.Equal(*endTime) || blockTime.After(*endTime)) {\n		return sdk.ZeroDec()\n	}\n\n	periodDuration", "	periodDuration"))
fire("c19-supply-guard-dropped", "C19", ["C19.guard"],
     (MINTYPES, "func (m *LinearMinting) CalculateInflation(totalSupply math.Int, minterStart time.Time, endTime *time.Time, blockTime time.Time) sdk.Dec {\n	if totalSupply.LTE(sdk.ZeroInt()) {\n		return sdk.ZeroDec()\n	}\n", "func (m *LinearMinting) CalculateInflation(totalSupply math.Int, minterStart time.Time, endTime *time.Time, blockTime time.Time) sdk.Dec {\n"))
fire("c19-divide-by-minted", "C19", ["C19.operands"],
     ("x/cfeminter/keeper/keeper.go", "	result := currentMinter.CalculateInflation(supply.Amount, startTime, ctx.BlockHeader().Time)", "	result := currentMinter.CalculateInflation(minterState.AmountMinted, startTime, ctx.BlockHeader().Time)"))
fire("c19-year-360", "C19", ["C19.operands"],
     (MINTYPES, "const year = time.Hour * 24 * 365", "const year = time.Hour * 24 * 360"))
silent("c19-end-check-not-before", "C19",
       (MINTYPES, "	if endTime != nil && (blockTime.Equal(*endTime) || blockTime.After(*endTime)) {\n		return sdk.ZeroDec()\n	}\n\n	periodDuration", "	if endTime != nil && !blockTime.Before(*endTime) {\n		return sdk.ZeroDec()\n	}\n\n	periodDuration"))

# ---------------- C11 ----------------
ABCI_D = "x/cfedistributor/abci.go"
fire("c11-f18-reintroduced", "C11", ["C11.inventory"],
     (DISTYPES, "	for _, accountId := range accountIds {\n		if lastOccurrence[accountId] != Source {", "	for accountId := range lastOccurrence {\n		if lastOccurrence[accountId] != Source {"))
fire("c11-map-iteration-in-beginblock", "C11", ["C11.inventory"],
     (ABCI_D, "	k.SendCoinsFromStates(ctx, states)", "	byKey := map[string]types.State{}\n	for _, s := range states {\n		byKey[s.GetStateKey()] = s\n	}\n	states = states[:0]\n	for _, s := range byKey {\n		states = append(states, s)\n	}\n	k.SendCoinsFromStates(ctx, states)"))
fire("c11-wallclock-into-state", "C11", ["C11.inventory"],
     (MINT, "	minterState.LastMintBlockTime = ctx.BlockTime()\n	minterState.RemainderToMint = remainder", "	minterState.LastMintBlockTime = time.Now()\n	minterState.RemainderToMint = remainder"))
fire("c11-rand-in-handler", "C11", ["C11.inventory"],
     ("x/cfevesting/keeper/msg_server_withdraw_all_available.go", "	ctx := sdk.UnwrapSDKContext(goCtx)\n", "	ctx := sdk.UnwrapSDKContext(goCtx)\n	if rand.Intn(1000) == 0 {\n		return nil, nil\n	}\n"),
     ("x/cfevesting/keeper/msg_server_withdraw_all_available.go", "import (\n	\"context\"\n", "import (\n	\"context\"\n	\"math/rand\"\n"))
fire("c11-package-var-in-handler", "C11", ["C11.inventory"],
     ("x/cfevesting/keeper/msg_server_withdraw_all_available.go", "	ctx := sdk.UnwrapSDKContext(goCtx)\n", "	ctx := sdk.UnwrapSDKContext(goCtx)\n	withdrawCalls++\n"),
     ("x/cfevesting/keeper/msg_server_withdraw_all_available.go", "func (k msgServer) WithdrawAllAvailable(", "var withdrawCalls int\n\nfunc (k msgServer) WithdrawAllAvailable("))
fire("c11-goroutine-in-beginblock", "C11", ["C11.inventory"],
     (ABCI_D, "	k.SendCoinsFromStates(ctx, states)", "	done := make(chan struct{})\n	go func() { k.SendCoinsFromStates(ctx, states); close(done) }()\n	<-done"))
silent("c11-membership-map", "C11",
       (ABCI_D, "	k.SendCoinsFromStates(ctx, states)", "	seen := map[string]bool{}\n	for _, s := range states {\n		seen[s.GetStateKey()] = true\n	}\n	if len(seen) <= len(states) {\n		k.SendCoinsFromStates(ctx, states)\n	}"))

# ---------------- C12 ----------------
fire("c12-export-without-history", "C12", ["C12.fields", "C12.prefix"],
     ("x/cfeminter/genesis.go", "	genesis.StateHistory = k.GetAllMinterStateHistory(ctx)\n", ""))
fire("c12-init-skips-trace-count", "C12", ["C12.fields", "C12.prefix"],
     ("x/cfevesting/genesis.go", "	k.SetVestingAccountTraceCount(ctx, genState.VestingAccountTraceCount)\n", ""))
fire("c12-new-prefix-not-exported", "C12", ["C12.prefix"],
     ("x/cfevesting/keeper/msg_server_withdraw_all_available.go", "	ctx := sdk.UnwrapSDKContext(goCtx)\n", "	ctx := sdk.UnwrapSDKContext(goCtx)\n	ctx.KVStore(k.storeKey).Set([]byte(\"last-withdrawer\"), []byte(msg.Owner))\n"))
fire("c12-unit-mismatch", "C12", ["C12.lossless"],
     ("x/cfevesting/types/vesting_type_utils.go", "		return 24 * time.Hour * time.Duration(value), nil", "		return 12 * time.Hour * time.Duration(value), nil"))
fire("c12-validate-skips-params", "C12", ["C12.validate"],
     ("x/cfedistributor/types/genesis.go", "	return gs.Params.Validate()", "	return nil"))
fire("c12-export-default-instead-of-state", "C12", ["C12.prefix"],
     ("x/cfevesting/genesis.go", "	genesis.VestingAccountTraceCount = k.GetVestingAccountTraceCount(ctx)\n", "	genesis.VestingAccountTraceCount = uint64(len(genesis.VestingAccountTraces))\n"))
silent("c12-export-through-helper", "C12",
       ("x/cfevesting/genesis.go", "	genesis.VestingAccountTraces = k.GetAllVestingAccountTrace(ctx)\n", "	traces := k.GetAllVestingAccountTrace(ctx)\n	genesis.VestingAccountTraces = traces\n"))

# ---------------- C16 ----------------
VUP = "app/upgrades/v120/vestings_upgrades.go"
AUP = "app/upgrades/v120/accounts_upgrades.go"
V3S = "x/cfevesting/migrations/v3/store.go"
V2S = "x/cfevesting/migrations/v2/store.go"
fire("c16-split-extra-unit", "C16", ["C16.split"],
     (VUP, "		InitiallyLocked: locked,\n		LockStart:       validatorsVestingPools.LockStart,", "		InitiallyLocked: locked.AddRaw(1),\n		LockStart:       validatorsVestingPools.LockStart,"))
fire("c16-split-guard-removed", "C16", ["C16.split"],
     (VUP, "	if validatorsVestingPools.GetCurrentlyLocked().Sub(locked).IsNegative() {", "	if locked.IsNegative() {"))
fire("c16-precheck-removed", "C16", ["C16.precheck"],
     (VUP, "	if validatorsVestingPools.GetCurrentlyLocked().LT(sum) {", "	if validatorsVestingPools.GetCurrentlyLocked().IsNegative() {"))
fire("c16-sum-omits-round", "C16", ["C16.precheck"],
     (VUP, "vcRoundUc4e.Add(earlyBirdRoundUc4e).Add(publicRoundUc4e).Add(strategicReserveShortTermRoundUc4e)", "vcRoundUc4e.Add(earlyBirdRoundUc4e).Add(publicRoundUc4e)"))
fire("c16-types-before-precheck", "C16", ["C16.precheck"],
     (VUP, "	if validatorsVestingPools.GetCurrentlyLocked().LT(sum) {\n		ctx.Logger().Info(\"validators vesting pool not enough locked to split\", \"owner\", poolsOwnerAddress.String())\n		return nil\n	}\n	if !modifyAndAddVestingTypes(ctx, appKeepers) {\n		return nil\n	}", "	if !modifyAndAddVestingTypes(ctx, appKeepers) {\n		return nil\n	}\n	if validatorsVestingPools.GetCurrentlyLocked().LT(sum) {\n		ctx.Logger().Info(\"validators vesting pool not enough locked to split\", \"owner\", poolsOwnerAddress.String())\n		return nil\n	}"))
fire("c16-persist-between-splits", "C16", ["C16.atomic"],
     (VUP, "	_, err = splitVestingPool(vestingPoolsP, validatorsVestingPools, publicRoundPoolName", "	appKeepers.GetC4eVestingKeeper().SetAccountVestingPools(ctx, *vestingPoolsP)\n	_, err = splitVestingPool(vestingPoolsP, validatorsVestingPools, publicRoundPoolName"))
fire("c16-split-error-ignored", "C16", ["C16.atomic"],
     (VUP, "	_, err = splitVestingPool(vestingPoolsP, validatorsVestingPools, publicRoundPoolName, publicRoundTypeName, publicRoundUc4e, 1, 6)\n	if err != nil {\n		return err\n	}", "	_, _ = splitVestingPool(vestingPoolsP, validatorsVestingPools, publicRoundPoolName, publicRoundTypeName, publicRoundUc4e, 1, 6)"))
fire("c16-v3-drops-sent", "C16", ["C16.fieldwise"],
     (V3S, "				Sent:            oldPool.Sent,", "				Sent:            sdk.ZeroInt(),"))
fire("c16-v3-swaps-counters", "C16", ["C16.fieldwise"],
     (V3S, "				Withdrawn:       oldPool.Withdrawn,\n				Sent:            oldPool.Sent,", "				Withdrawn:       oldPool.Sent,\n				Sent:            oldPool.Withdrawn,"))
fire("c16-v2-sent-misses-counter", "C16", ["C16.fieldwise"],
     (V2S, "			sent := oldPool.LastModificationWithdrawn.Add(oldPool.Vested).Sub(oldPool.Withdrawn).Sub(oldPool.LastModificationVested)", "			sent := oldPool.LastModificationWithdrawn.Add(oldPool.Vested).Sub(oldPool.Withdrawn)"))
fire("c16-v3-skips-empty-pools", "C16", ["C16.fieldwise"],
     (V3S, "			newPools = append(newPools, &newPool)", "			if !newPool.InitiallyLocked.IsZero() {\n				newPools = append(newPools, &newPool)\n			}"))
fire("c16-accounts-original-vesting", "C16", ["C16.accounts"],
     (AUP, "	vestingAccount.EndTime = endTime.AddDate(1, 0, 0).Unix()", "	vestingAccount.EndTime = endTime.AddDate(1, 0, 0).Unix()\n	vestingAccount.OriginalVesting = vestingAccount.OriginalVesting.Add(vestingAccount.DelegatedFree...)"))
fire("c16-accounts-end-from-start", "C16", ["C16.accounts"],
     (AUP, "	vestingAccount.EndTime = endTime.AddDate(1, 0, 0).Unix()", "	_ = endTime\n	vestingAccount.EndTime = startTime.AddDate(2, 0, 0).Unix()"))
fire("c16-params-unvalidated", "C16", ["C16.params"],
     ("x/cfedistributor/migrations/v3/params.go", "	if err := currParams.Validate(); err != nil {\n		return err\n	}\n", ""))

# ---------------- rules added after the first seeded round ----------------
fire("c05-locked-ignores-withdrawn", ["C05", "C06"], ["C05.locked"],
     ("x/cfevesting/types/account_vesting_pool.go", "	return m.InitiallyLocked.Sub(m.Sent).Sub(m.Withdrawn)", "	return m.InitiallyLocked.Sub(m.Sent)"))
fire("c05-locked-sent-twice", "C05", ["C05.locked"],
     ("x/cfevesting/types/account_vesting_pool.go", "	return m.InitiallyLocked.Sub(m.Sent).Sub(m.Withdrawn)", "	return m.InitiallyLocked.Sub(m.Sent).Sub(m.Sent)"))
fire("c05-validate-accepts-negative-sent", "C05", ["C05.locked"],
     ("x/cfevesting/types/account_vesting_pool.go", "	if m.Sent.IsNegative() {", "	if m.Sent.IsNil() {"))
silent("c05-locked-reordered", "C05",
       ("x/cfevesting/types/account_vesting_pool.go", "	return m.InitiallyLocked.Sub(m.Sent).Sub(m.Withdrawn)", "	return m.InitiallyLocked.Sub(m.Withdrawn).Sub(m.Sent)"))
fire("c14-payout-reversed", "C14", ["C14.direction"],
     (DISTR, "	if err := k.SendCoinsFromModuleToModule(ctx, toSend, types.DistributorMainAccount, state.Account.Id); err != nil {", "	if err := k.SendCoinsFromModuleToModule(ctx, toSend, state.Account.Id, types.DistributorMainAccount); err != nil {"))
fire("c14-payout-from-other-account", "C14", ["C14.direction"],
     (DISTR, "	} else if err := k.SendCoinsFromModuleAccount(ctx, toSend, types.DistributorMainAccount, dstAccount); err != nil {", "	} else if err := k.SendCoinsFromModuleAccount(ctx, toSend, types.ValidatorsRewardsCollector, dstAccount); err != nil {"))
fire("c18-first-distribution-not-emitted", "C18", ["C18.emitall"],
     (ABCI_D, "		for _, distribution := range distributions {", "		for _, distribution := range distributions[1:] {"))
fire("c18-emit-skips-small", "C18", ["C18.emitall"],
     (ABCI_D, "		for _, distribution := range distributions {\n", "		for _, distribution := range distributions {\n			if len(distribution.Amount) == 0 {\n				continue\n			}\n"))
fire("c20-query-req-unchecked", "C20", ["C20.nilreq"],
     (QPOOLS, "	if req == nil {\n		return nil, status.Error(codes.InvalidArgument, \"invalid request\")\n	}\n", ""))

# ---------------- loop early exits / wrappers / seeded-derived (batch 4) ----------------
KEEP_D = "x/cfedistributor/keeper/keeper.go"
fire("c06-break-at-first-locked-pool", "C06", ["C06.everypool"],
     (VEST, "	for _, vestingPool := range accVestingPools.VestingPools {\n		withdrawable := CalculateWithdrawable(current, *vestingPool)", "	for _, vestingPool := range accVestingPools.VestingPools {\n		if current.Before(vestingPool.LockEnd) {\n			break\n		}\n		withdrawable := CalculateWithdrawable(current, *vestingPool)"))
fire("c06-skip-pool-without-oracle", "C06", ["C06.everypool"],
     (VEST, "	for _, vestingPool := range accVestingPools.VestingPools {\n		withdrawable := CalculateWithdrawable(current, *vestingPool)", "	for _, vestingPool := range accVestingPools.VestingPools {\n		if vestingPool.GenesisPool {\n			continue\n		}\n		withdrawable := CalculateWithdrawable(current, *vestingPool)"))
silent("c06-continue-after-oracle-zero", "C06",
     (VEST, "		withdrawable := CalculateWithdrawable(current, *vestingPool)\n		vestingPool.Withdrawn = vestingPool.Withdrawn.Add(withdrawable)", "		withdrawable := CalculateWithdrawable(current, *vestingPool)\n		if withdrawable.IsZero() {\n			continue\n		}\n		vestingPool.Withdrawn = vestingPool.Withdrawn.Add(withdrawable)"))
fire("c03-persist-loop-break", "C03", ["C03.persist"],
     (DISTR, "		k.SetState(ctx, state)\n	}\n}", "		k.SetState(ctx, state)\n		if state.Burn {\n			break\n		}\n	}\n}"))
fire("c04-share-loop-break-on-main", "C04", ["C04.everyshare"],
     (DISTR, "		if share.Destination.Type == types.Main {\n			continue\n		}", "		if share.Destination.Type == types.Main {\n			break\n		}"))
fire("c14-wrapper-clamps-to-spendable", ["C14", "C01", "C03"], ["C14.wrapper", "C01.wrapper", "C03.wrapper"],
     (KEEP_D, "	return k.bankKeeper.SendCoinsFromAccountToModule(ctx, account, moduleTo, coins)", "	coins = coins.Min(k.bankKeeper.SpendableCoins(ctx, account))\n	return k.bankKeeper.SendCoinsFromAccountToModule(ctx, account, moduleTo, coins)"))
fire("c14-wrapper-hides-error", "C14", ["C14.wrapper"],
     (KEEP_D, "	return k.bankKeeper.BurnCoins(ctx, moduleAccountName, coins)\n", "	if err := k.bankKeeper.BurnCoins(ctx, moduleAccountName, coins); err != nil {\n		k.Logger(ctx).Error(\"burn\", \"error\", err.Error())\n	}\n	return nil\n"))
silent("c14-wrapper-named-result", "C14",
     (KEEP_D, "	return k.bankKeeper.BurnCoins(ctx, moduleAccountName, coins)\n", "	err := k.bankKeeper.BurnCoins(ctx, moduleAccountName, coins)\n	return err\n"))
fire("c07-whole-locked-fast-path", "C07", ["C07.reduction"],
     (UNLOCK, "			vestingCoin := vestingCoins.AmountOf(coin.Denom)\n", "			vestingCoin := vestingCoins.AmountOf(coin.Denom)\n			if coin.Amount.Equal(lockedCoins.AmountOf(coin.Denom)) {\n				vestingAcc.OriginalVesting = vestingAcc.OriginalVesting.Sub(sdk.NewCoin(coin.Denom, orignalVesting))\n				continue\n			}\n"))
fire("c07-reduce-by-requested-amount", "C07", ["C07.reduction"],
     (UNLOCK, "vestingAcc.OriginalVesting = vestingAcc.OriginalVesting.Sub(sdk.NewCoin(coin.Denom, originalVestingDiff))", "_ = originalVestingDiff\n			vestingAcc.OriginalVesting = vestingAcc.OriginalVesting.Sub(sdk.NewCoin(coin.Denom, coin.Amount))"))
silent("c07-diff-named-coin", "C07",
     (UNLOCK, "vestingAcc.OriginalVesting = vestingAcc.OriginalVesting.Sub(sdk.NewCoin(coin.Denom, originalVestingDiff))", "diffCoin := sdk.NewCoin(coin.Denom, originalVestingDiff)\n			vestingAcc.OriginalVesting = vestingAcc.OriginalVesting.Sub(diffCoin)"))
C08_OLD = "	if restartVesting {\n		err = k.newVestingAccount(ctx, toAccAddress, amount, vt.Free,\n			ctx.BlockTime().Add(vt.LockupPeriod), ctx.BlockTime().Add(vt.LockupPeriod).Add(vt.VestingPeriod))\n	} else {\n		err = k.newVestingAccount(ctx, toAccAddress, amount, vt.Free,\n			vestingPool.LockEnd, vestingPool.LockEnd)\n	}\n"
fire("c08-duration-sum-wraps", "C08", ["C08.schedule"],
     (VEST, C08_OLD, "	lockEnd, vestingEnd := vestingPool.LockEnd, vestingPool.LockEnd\n	if restartVesting {\n		lockEnd = ctx.BlockTime().Add(vt.LockupPeriod)\n		vestingEnd = ctx.BlockTime().Add(vt.LockupPeriod + vt.VestingPeriod)\n	}\n	err = k.newVestingAccount(ctx, toAccAddress, amount, vt.Free, lockEnd, vestingEnd)\n"))
silent("c08-single-call-phi-args", "C08",
     (VEST, C08_OLD, "	lockEnd, vestingEnd := vestingPool.LockEnd, vestingPool.LockEnd\n	if restartVesting {\n		lockEnd = ctx.BlockTime().Add(vt.LockupPeriod)\n		vestingEnd = lockEnd.Add(vt.VestingPeriod)\n	}\n	err = k.newVestingAccount(ctx, toAccAddress, amount, vt.Free, lockEnd, vestingEnd)\n"))
fire("c08-single-call-swapped-flag", "C08", ["C08.schedule"],
     (VEST, C08_OLD, "	lockEnd, vestingEnd := vestingPool.LockEnd, vestingPool.LockEnd\n	if !restartVesting {\n		lockEnd = ctx.BlockTime().Add(vt.LockupPeriod)\n		vestingEnd = lockEnd.Add(vt.VestingPeriod)\n	}\n	err = k.newVestingAccount(ctx, toAccAddress, amount, vt.Free, lockEnd, vestingEnd)\n"))

# ---------------- units of measure (C02.units, C19.units) ----------------
fire("c02-units-numerator-in-seconds", "C02", ["C02.units"],
     (MINTYPES, "	passedTime := blockTime.UnixMilli() - startTime.UnixMilli()", "	passedTime := blockTime.Unix() - startTime.Unix()"))
fire("c02-units-mixed-difference", "C02", ["C02.units"],
     (MINTYPES, "	period := endTime.UnixMilli() - startTime.UnixMilli()", "	period := endTime.UnixMilli() - startTime.Unix()"))
fire("c02-units-step-in-ms", "C02", ["C02.units"],
     (MINTYPES, "	passedTime := int64(now.Sub(startTime))\n	epoch := int64(m.StepDuration)", "	passedTime := int64(now.Sub(startTime))\n	epoch := m.StepDuration.Milliseconds()"))
silent("c02-units-named-operands", "C02",
     (MINTYPES, "	passedTime := blockTime.UnixMilli() - startTime.UnixMilli()", "	nowMs, startMs := blockTime.UnixMilli(), startTime.UnixMilli()\n	passedTime := nowMs - startMs"))
fire("c19-units-period-in-ms", "C19", ["C19.units"],
     (MINTYPES, "QuoInt64(int64(periodDuration))", "QuoInt64(periodDuration.Milliseconds())"))
fire("c19-units-step-in-seconds", "C19", ["C19.units"],
     (MINTYPES, "	mintedYearly := epochAmount.MulInt64(int64(year)).QuoInt64(epoch)", "	mintedYearly := epochAmount.MulInt64(int64(year)).QuoInt64(int64(m.StepDuration.Seconds()))"))
# (consistent scale, but Duration.Milliseconds() truncates the sub-millisecond part of the period: the rate changes for
# periods that are not a whole number of ms - reported since the units analysis treats the rescaling as truncating)
fire("c19-units-all-in-ms", "C19", ["C19.units"],
     (MINTYPES, "	mintedYearly := sdk.NewDecFromInt(m.Amount).MulInt64(int64(year)).QuoInt64(int64(periodDuration))", "	mintedYearly := sdk.NewDecFromInt(m.Amount).MulInt64(year.Milliseconds()).QuoInt64(periodDuration.Milliseconds())"))

# ---------------- round-2 seeded-derived ----------------
ABCI_M = "x/cfeminter/abci.go"
fire("c01-mint-error-swallowed-in-beginblock", "C01", ["C01.abort"],
     (ABCI_M, "		k.Logger(ctx).Error(\"mint error\", \"error\", err.Error())\n		panic(err)", "		k.Logger(ctx).Error(\"mint error - minting skipped in this block\", \"error\", err.Error())\n		amount = sdk.ZeroInt()"))
fire("c01-forward-error-logged-only", "C01", ["C01.abort"],
     (MINT, "	err = k.SendMintedCoins(ctx, coins)\n	if err != nil {", "	err = k.SendMintedCoins(ctx, coins)\n	if err != nil && false {"))
fire("c02-exp-fast-path-above-clamp", "C02", ["C02.boundaries"],
     (MINTYPES, "func (m *ExponentialStepMinting) AmountToMint(logger log.Logger, startTime time.Time, endTime *time.Time, blockTime time.Time) sdk.Dec {\n	now := blockTime", "func (m *ExponentialStepMinting) AmountToMint(logger log.Logger, startTime time.Time, endTime *time.Time, blockTime time.Time) sdk.Dec {\n	if m.AmountMultiplier.Equal(sdk.OneDec()) {\n		return sdk.NewDecFromInt(m.Amount).MulInt64(int64(blockTime.Sub(startTime))).QuoInt64(int64(m.StepDuration))\n	}\n	now := blockTime"))
silent("c02-exp-fast-path-below-clamp", "C02",
     (MINTYPES, "	passedTime := int64(now.Sub(startTime))\n	epoch := int64(m.StepDuration)\n	numOfPassedEpochs := passedTime / epoch\n\n	amountToMint := sdk.ZeroDec()", "	passedTime := int64(now.Sub(startTime))\n	epoch := int64(m.StepDuration)\n	if m.AmountMultiplier.Equal(sdk.OneDec()) {\n		return sdk.NewDecFromInt(m.Amount).MulInt64(passedTime).QuoInt64(epoch)\n	}\n	numOfPassedEpochs := passedTime / epoch\n\n	amountToMint := sdk.ZeroDec()"))
fire("c03-burn-lookup-by-empty-account", ["C03", "C04"], ["C03.burnkey", "C04.key"],
     (DISTR, "func findBurnState(states *[]types.State) int {\n	for pos, state := range *states {\n		if state.Burn {\n			return pos\n		}\n	}\n	return -1\n}", "var burnAccount = types.Account{}\n\nfunc findBurnState(states *[]types.State) int {\n	return findAccountState(states, &burnAccount)\n}"))
fire("c03-burn-lookup-skips-nil-account", ["C03", "C04"], ["C03.burnkey", "C04.key"],
     (DISTR, "	for pos, state := range *states {\n		if state.Burn {\n			return pos\n		}\n	}\n	return -1", "	for pos, state := range *states {\n		if state.Account == nil {\n			continue\n		}\n		if state.Burn {\n			return pos\n		}\n	}\n	return -1"))
silent("c03-burn-lookup-by-index", ["C03", "C04"],
     (DISTR, "	for pos, state := range *states {\n		if state.Burn {\n			return pos\n		}\n	}\n	return -1", "	for pos := range *states {\n		if (*states)[pos].Burn {\n			return pos\n		}\n	}\n	return -1"))
fire("c04-payout-dispatch-on-account-nil", ["C04", "C12"], ["C04.sameshape", "C12.sameshape"],
     (DISTR, "		if types.InternalAccount != state.Account.GetType() && checkIfAnyCoinIsGTE1(state.Remains) {", "		if account := state.Account; account != nil && types.InternalAccount != account.Type && checkIfAnyCoinIsGTE1(state.Remains) {"))

silent("c06-query-inlines-oracle-statelessly", "C06",
     (QPOOLS, "		withdrawable := CalculateWithdrawable(ctx.BlockTime(), *vesting)\n		current := vesting.GetCurrentlyLocked()", "		current := vesting.GetCurrentlyLocked()\n		withdrawable := sdk.ZeroInt()\n		if !ctx.BlockTime().Before(vesting.LockEnd) {\n			withdrawable = current\n		}"))
fire("c06-query-inlined-oracle-keeps-state", "C06", ["C06.sameoracle"],
     (QPOOLS, "	result := types.QueryVestingPoolsResponse{}\n", "	result := types.QueryVestingPoolsResponse{}\n	withdrawable := sdk.ZeroInt()\n"),
     (QPOOLS, "		withdrawable := CalculateWithdrawable(ctx.BlockTime(), *vesting)\n		current := vesting.GetCurrentlyLocked()", "		current := vesting.GetCurrentlyLocked()\n		if !ctx.BlockTime().Before(vesting.LockEnd) {\n			withdrawable = current\n		}"))
fire("c06-query-inlined-oracle-strict-after", "C06", ["C06.sameoracle"],
     (QPOOLS, "		withdrawable := CalculateWithdrawable(ctx.BlockTime(), *vesting)\n		current := vesting.GetCurrentlyLocked()", "		current := vesting.GetCurrentlyLocked()\n		withdrawable := sdk.ZeroInt()\n		if ctx.BlockTime().After(vesting.LockEnd) {\n			withdrawable = current\n		}"))

silent("c08-direct-sorted-before-both-uses", "C08",
     (VEST, "	acc, err := k.newContinuousVestingAccount(ctx, to, amount.Sort(), startTime, endTime)", "	amount = amount.Sort()\n	acc, err := k.newContinuousVestingAccount(ctx, to, amount, startTime, endTime)"))
fire("c08-direct-vests-only-module-denom", "C08", ["C08.same"],
     (VEST, "	acc, err := k.newContinuousVestingAccount(ctx, to, amount.Sort(), startTime, endTime)", "	denom := k.Denom(ctx)\n	acc, err := k.newContinuousVestingAccount(ctx, to, sdk.NewCoins(sdk.NewCoin(denom, amount.AmountOf(denom))), startTime, endTime)"))

MVD = "x/cfevesting/keeper/msg_server_move_available_vesting_by_denoms.go"
MVD_OLD = "	amount := sdk.NewCoins()\n	for _, denom := range msg.Denoms {\n		if len(denom) == 0 {\n			return nil, sdkerrors.Wrapf(types.ErrParam, \"move available vesting by denoms - empty denom\")\n		}\n		denAmount := locked.AmountOf(denom)\n		if denAmount.IsPositive() {\n			amount = amount.Add(sdk.NewCoin(denom, denAmount))\n		}\n	}\n"
fire("c07-move-binary-search-unsorted-denoms", "C07", ["C07.move"],
     (MVD, MVD_OLD, "	amount := sdk.NewCoins()\n	for _, coin := range locked {\n		if i := sort.SearchStrings(msg.Denoms, coin.Denom); i < len(msg.Denoms) && msg.Denoms[i] == coin.Denom {\n			amount = amount.Add(coin)\n		}\n	}\n"),
     (MVD, "import (\n", "import (\n	\"sort\"\n"))
silent("c07-move-filter-locked-by-linear-scan", "C07",
     (MVD, MVD_OLD, "	amount := sdk.NewCoins()\n	for _, coin := range locked {\n		for _, denom := range msg.Denoms {\n			if denom == coin.Denom && coin.Amount.IsPositive() {\n				amount = amount.Add(coin)\n			}\n		}\n	}\n"))
fire("c07-move-ignores-denoms", "C07", ["C07.move"],
     (MVD, MVD_OLD, "	amount := locked\n"))

fire("c19-shortcut-result-inside-period", "C19", ["C19.formula"],
     (MINTYPES, "	periodDuration := endTime.Sub(minterStart)\n", "	if totalSupply.LT(m.Amount) {\n		return sdk.OneDec()\n	}\n	periodDuration := endTime.Sub(minterStart)\n"))
silent("c19-formula-named-intermediate", "C19",
     (MINTYPES, "	mintedYearly := sdk.NewDecFromInt(m.Amount).MulInt64(int64(year)).QuoInt64(int64(periodDuration))\n	return mintedYearly.QuoInt(totalSupply)", "	perYear := sdk.NewDecFromInt(m.Amount).MulInt64(int64(year))\n	mintedYearly := perYear.QuoInt64(int64(periodDuration))\n	rate := mintedYearly.QuoInt(totalSupply)\n	return rate"))

fire("c15-reference-id-lowercased-for-record-only", "C15", ["C15.payload"],
     (VERSIG, "	referenceId := req.ReferenceId\n", "	referenceId := strings.ToLower(req.ReferenceId)\n"),
     (VERSIG, "import (\n", "import (\n	\"strings\"\n"))
silent("c15-reference-id-normalised-everywhere", "C15",
     (VERSIG, "	referenceId := req.ReferenceId\n", "	referenceId := strings.TrimSpace(req.ReferenceId)\n"),
     (VERSIG, "k.GetPayloadLink(ctx, req.ReferenceId)", "k.GetPayloadLink(ctx, strings.TrimSpace(req.ReferenceId))"),
     (VERSIG, "import (\n", "import (\n	\"strings\"\n"))

# ---------------- round-2 batch C derived ----------------
PARAMS_D = "x/cfedistributor/keeper/params.go"
fire("c11-params-memoised-in-keeper", "C11", ["C11.inventory"],
     (KEEP_D, "		authority     string\n	}\n", "		authority     string\n		decoded       *decodedParams\n	}\n\n	decodedParams struct {\n		bz     []byte\n		params types.Params\n	}\n"),
     (KEEP_D, "		authority:     authority,\n	}", "		authority:     authority,\n		decoded:       &decodedParams{},\n	}"),
     (PARAMS_D, "	k.cdc.MustUnmarshal(bz, &p)\n	return p", "	if string(bz) == string(k.decoded.bz) {\n		return k.decoded.params\n	}\n	k.cdc.MustUnmarshal(bz, &p)\n	k.decoded.bz, k.decoded.params = bz, p\n	return p"))
POOLT = "x/cfevesting/types/account_vesting_pool.go"
fire("c12-genesis-rejects-zero-pool", "C12", ["C12.accepts"],
     (POOLT, "	if m.Withdrawn.IsNegative() {", "	if m.InitiallyLocked.IsZero() {\n		return fmt.Errorf(\"vesting pool %s of %s has nothing locked initially\", m.Name, accountAdd)\n	}\n	if m.Withdrawn.IsNegative() {"))
silent("c12-genesis-validation-reworded", "C12",
     (POOLT, "	if m.Withdrawn.IsNegative() {", "	if withdrawnNegative := m.Withdrawn.IsNegative(); withdrawnNegative {"))
fire("c14-leftovers-dropped-on-failed-sweep", ["C14", "C03"], ["C14.sweep", "C03.sweep"],
     (DISTR, "	} else {\n		coinsToDistribute = sdk.NewDecCoins()\n\n	}\n	return prepareLeftCoinToDistribute(coinsToDistribute, source, states)", "	} else {\n		coinsToDistribute = sdk.NewDecCoins()\n\n	}\n	left := prepareLeftCoinToDistribute(sdk.NewDecCoins(), source, states)\n	if coinsToDistribute == nil {\n		return nil\n	}\n	return coinsToDistribute.Add(left...)"))
silent("c14-leftovers-taken-first-and-kept", ["C14", "C03"],
     (DISTR, "	} else {\n		coinsToDistribute = sdk.NewDecCoins()\n\n	}\n	return prepareLeftCoinToDistribute(coinsToDistribute, source, states)", "	} else {\n		coinsToDistribute = sdk.NewDecCoins()\n\n	}\n	left := prepareLeftCoinToDistribute(sdk.NewDecCoins(), source, states)\n	return left.Add(coinsToDistribute...)"))

# ---------------- round-2 batch D derived ----------------
fire("c17-summary-skips-zero-balance-accounts", "C17", ["C17.summary"],
     (SUMM, "		vestingAccount := k.account.GetAccount(ctx, accAddr)\n", "		if k.bank.GetBalance(ctx, accAddr, denom).IsZero() {\n			continue\n		}\n		vestingAccount := k.account.GetAccount(ctx, accAddr)\n"))
silent("c17-summary-type-test-as-early-continue", "C17",
     (SUMM, "		if continuousVestingAccount, ok := vestingAccount.(*vestingtypes.ContinuousVestingAccount); ok {\n			lockedCoins := continuousVestingAccount.LockedCoins(ctx.BlockTime())", "		continuousVestingAccount, ok := vestingAccount.(*vestingtypes.ContinuousVestingAccount)\n		if !ok {\n			continue\n		}\n		{\n			lockedCoins := continuousVestingAccount.LockedCoins(ctx.BlockTime())"))
fire("c20-pubkey-address-of-decoded-key", "C20", ["C20.inventory"],
     (CRACC, "	err = newAccount.SetPubKey(pk)\n", "	if pk == nil || !accAddress.Equals(sdk.AccAddress(pk.Address())) {\n		return nil, sdkerrors.ErrInvalidPubKey\n	}\n	err = newAccount.SetPubKey(pk)\n"))

# ---------------- listing getters ----------------
fire("c12-getall-skips-empty-owner", "C12", ["C12.getall"],
     ("x/cfevesting/keeper/account_vesting_pools.go", "		k.cdc.MustUnmarshal(iterator.Value(), &val)\n", "		k.cdc.MustUnmarshal(iterator.Value(), &val)\n		if len(val.VestingPools) == 0 {\n			continue\n		}\n"))

# ---------------- round-3 batch A derived ----------------
fire("c17-trace-keyed-by-message-string", "C17", ["C17.key", "C17.pool"],
     (VEST, "			Address:            toAccAddress.String(),", "			Address:            toAddr,"))
fire("c05-create-pool-looks-up-raw-owner", "C05", ["C05.rmwkey"],
     (VEST, "	return k.addVestingPool(ctx, name, accAddress, amount, vestingType, ctx.BlockTime(),", "	return k.addVestingPool(ctx, name, addr, accAddress, amount, vestingType, ctx.BlockTime(),"),
     (VEST, "	vestingPoolName string,\n	accAddress sdk.AccAddress,", "	vestingPoolName string,\n	owner string,\n	accAddress sdk.AccAddress,"),
     (VEST, "k.GetAccountVestingPools(ctx, accAddress.String())", "k.GetAccountVestingPools(ctx, owner)"))
silent("c05-create-pool-owner-named-once", "C05",
     (VEST, "	accVestingPools, vestingPoolsFound := k.GetAccountVestingPools(ctx, accAddress.String())", "	ownerKey := accAddress.String()\n	accVestingPools, vestingPoolsFound := k.GetAccountVestingPools(ctx, ownerKey)"),
     (VEST, "		accVestingPools.Owner = accAddress.String()", "		accVestingPools.Owner = ownerKey"))
fire("c01-burn-dispatch-on-account-nil", "C01", ["C01.sameshape"],
     (DISTR, "		if types.InternalAccount != state.Account.GetType() && checkIfAnyCoinIsGTE1(state.Remains) {", "		if state.Account != nil && types.InternalAccount != state.Account.Type && checkIfAnyCoinIsGTE1(state.Remains) {"))

silent("c07-guard-as-locked-isallgte", "C07",
     (UNLOCK, "	if !amountToUnlock.IsAllLTE(lockedCoins) {", "	if !lockedCoins.IsAllGTE(amountToUnlock) {"))
fire("c07-guard-isanygt-skips-zero-locked", "C07", ["C07.guard"],
     (UNLOCK, "	if !amountToUnlock.IsAllLTE(lockedCoins) {", "	if amountToUnlock.IsAnyGT(lockedCoins) {"))
fire("c09-sender-converted-from-delayed", ["C09", "C07"], ["C09.self", "C07.guard"],
     (UNLOCK, "	vestingAcc, ok := ownerAccount.(*vestingtypes.ContinuousVestingAccount)\n	if !ok {", "	vestingAcc, ok := ownerAccount.(*vestingtypes.ContinuousVestingAccount)\n	if delayedAcc, isDelayed := ownerAccount.(*vestingtypes.DelayedVestingAccount); isDelayed {\n		vestingAcc, ok = vestingtypes.NewContinuousVestingAccountRaw(delayedAcc.BaseVestingAccount, delayedAcc.EndTime), true\n	}\n	if !ok {"))

# ---------------- round-3 batch B derived ----------------
fire("c08-pool-selected-case-insensitively", "C08", ["C08.pool"],
     (VEST, "		if vest.Name == vestingPoolName {\n			vestingPool = vest\n		}", "		if strings.EqualFold(vest.Name, vestingPoolName) {\n			vestingPool = vest\n		}"),
     (VEST, "import (\n", "import (\n	\"strings\"\n"))
silent("c08-pool-selected-operands-swapped", "C08",
     (VEST, "		if vest.Name == vestingPoolName {\n			vestingPool = vest\n		}", "		if vestingPoolName != vest.Name {\n			continue\n		}\n		vestingPool = vest"))
fire("c10-inflation-period-in-whole-minutes", ["C10", "C19"], ["C10.inventory", "C19.units"],
     (MINTYPES, "	mintedYearly := sdk.NewDecFromInt(m.Amount).MulInt64(int64(year)).QuoInt64(int64(periodDuration))", "	mintedYearly := sdk.NewDecFromInt(m.Amount).MulInt64(int64(year / time.Minute)).QuoInt64(int64(periodDuration / time.Minute))"))

fire("c06-withdraw-looks-up-raw-owner", ["C06", "C05"], ["C06.key", "C05.key"],
     (VEST, "	accVestingPools, vestingPoolsFound := k.GetAccountVestingPools(ctx, ownerAddress.String())", "	accVestingPools, vestingPoolsFound := k.GetAccountVestingPools(ctx, owner)"))

# ---------------- local time zone (F23, F24, seeded C11c) ----------------
fire("c11-upgrade-adddate-in-local-zone", "C11", ["C11.inventory"],
     (AUP, "	startTime := time.Unix(vestingAccount.StartTime, 0).UTC()", "	startTime := time.Unix(vestingAccount.StartTime, 0)"))
fire("c11-error-text-in-local-zone", "C11", ["C11.inventory"],
     ("x/cfevesting/types/message_create_vesting_account.go", "time.Unix(startTime, 0).UTC().String()", "time.Unix(startTime, 0).String()"))
silent("c11-upgrade-adds-seconds-instead", "C11",
     (AUP, "	vestingAccount.StartTime = startTime.AddDate(1, 0, 0).Unix()", "	vestingAccount.StartTime = startTime.AddDate(1, 0, 0).Add(0).Unix()"))

# ---------------- round-3 batch C derived ----------------
GEN_M = "x/cfeminter/genesis.go"
fire("c12-import-resets-fresh-minter-state", "C12", ["C12.verbatim"],
     (GEN_M, "	k.SetMinterState(ctx, genState.MinterState)", "	minterState := genState.MinterState\n	if minterState.AmountMinted.IsNil() || minterState.AmountMinted.IsZero() {\n		minterState.RemainderFromPreviousMinter = sdk.ZeroDec()\n	}\n	k.SetMinterState(ctx, minterState)"))
silent("c12-import-through-local-copy", "C12",
     (GEN_M, "	k.SetMinterState(ctx, genState.MinterState)", "	minterState := genState.MinterState\n	k.SetMinterState(ctx, minterState)"))
fire("c14-no-payout-in-idle-block", "C14", ["C14.retry"],
     (ABCI_D, "	k.SendCoinsFromStates(ctx, states)\n}", "	if len(subDistributors) == 0 {\n		return\n	}\n	k.SendCoinsFromStates(ctx, states)\n}"))
SIG_STORE = "x/cfesignature/keeper/msg_server_store_signature.go"
fire("c11-signature-timestamp-in-local-zone", "C11", ["C11.inventory"],
     (SIG_STORE, "	signatureObject.Timestamp = ctx.BlockTime().String()", "	signatureObject.Timestamp = time.Unix(ctx.BlockTime().Unix(), 0).String()"),
     (SIG_STORE, "import (\n", "import (\n	\"time\"\n"))

# ---------------- round-3 batch D derived ----------------
C18C_OLD1 = "		calculatedShare := calculatePercentage(share.Share, coinsToDistributeDec)\n		defaultShare = defaultShare.Sub(calculatedShare)\n		if share.Destination.Type == types.Main {\n			continue\n		}"
C18C_NEW1 = "		calculatedShare := calculatePercentage(share.Share, coinsToDistributeDec)\n		if share.Destination.Type == types.Main {\n			leftInMain = leftInMain.Add(calculatedShare...)\n			continue\n		}\n		defaultShare = defaultShare.Sub(calculatedShare)"
silent("c04-main-share-kept-aside-and-subtracted-later", ["C04", "C03", "C18"],
     (DISTR, "	defaultShare := coinsToDistributeDec\n", "	defaultShare := coinsToDistributeDec\n	leftInMain := sdk.NewDecCoins()\n"),
     (DISTR, C18C_OLD1, C18C_NEW1),
     (DISTR, "	accountDefault := subDistributor.Destinations.GetPrimaryShare()\n", "	defaultShare = defaultShare.Sub(leftInMain)\n	accountDefault := subDistributor.Destinations.GetPrimaryShare()\n"))
fire("c18-primary-event-reports-amount-before-main-share", "C18", ["C18.amount"],
     (DISTR, "	defaultShare := coinsToDistributeDec\n", "	defaultShare := coinsToDistributeDec\n	leftInMain := sdk.NewDecCoins()\n"),
     (DISTR, C18C_OLD1, C18C_NEW1),
     (DISTR, "		localRemains = k.addSharesToAccountState(ctx, localRemains, &accountDefault, defaultShare, findFunc)", "		localRemains = k.addSharesToAccountState(ctx, localRemains, &accountDefault, defaultShare.Sub(leftInMain), findFunc)"))

# ---------------- round 4: accumulator-style total in the minting routine ----------------
MINTGO = "x/cfeminter/keeper/mint.go"
_ACC = [
    (MINTGO, "	return k.mint(ctx, &params, 0)", "	return k.mint(ctx, &params, 0, sdk.ZeroInt())"),
    (MINTGO, "func (k Keeper) mint(ctx sdk.Context, params *types.Params, level int) (math.Int, error) {", "func (k Keeper) mint(ctx sdk.Context, params *types.Params, level int, mintedSoFar math.Int) (math.Int, error) {"),
    (MINTGO, """			"previousMinter", previousMinter.GetMinterJSON(), "expectedAmountToMint", expectedAmountToMint, "amount", amount)
		return sdk.ZeroInt(), nil""", """			"previousMinter", previousMinter.GetMinterJSON(), "expectedAmountToMint", expectedAmountToMint, "amount", amount)
		return mintedSoFar, nil"""),
    (MINTGO, "		result = amount\n", "		result = mintedSoFar.Add(amount)\n"),
    (MINTGO, "		result = minted.Add(amount)\n", "		result = minted\n"),
]
silent("c18-total-accumulator-style", ["C18", "C02", "C01"], *(_ACC + [(MINTGO, "		minted, err := k.mint(ctx, params, level+1)", "		minted, err := k.mint(ctx, params, level+1, mintedSoFar.Add(amount))")]))
fire("c18-total-accumulator-drops-handed-in", ["C18", "C02"], ["C18.total", "C02.carry"], *(_ACC + [(MINTGO, "		minted, err := k.mint(ctx, params, level+1)", "		minted, err := k.mint(ctx, params, level+1, amount)")]))
fire("c18-total-successor-dropped", ["C18", "C02"], ["C18.total", "C02.carry"], (MINTGO, "		result = minted.Add(amount)\n", "		result = amount\n"))
fire("c18-total-own-amount-dropped", ["C18", "C02"], ["C18.total", "C02.carry"], (MINTGO, "		result = minted.Add(amount)\n", "		result = minted\n"))

# ---------------- round 4: selection of the current / previous period by sequence id ----------------
fire("c02-select-prev-smallest", ["C02", "C10", "C19"], ["C02.select", "C10.select", "C19.select"],
     (MINTGO, "minter.SequenceId < currentId && minter.SequenceId > previousMinter.SequenceId", "minter.SequenceId < currentId && minter.SequenceId < previousMinter.SequenceId"))
fire("c02-select-prev-lte", ["C02"], ["C02.select"],
     (MINTGO, """		if previousMinter == nil {
			if minter.SequenceId < currentId {""", """		if previousMinter == nil {
			if minter.SequenceId <= currentId {"""))
fire("c02-select-break-at-current", ["C02"], ["C02.select"],
     (MINTGO, """		if minter.SequenceId == currentId {
			currentMinter = minter
		}""", """		if minter.SequenceId == currentId {
			currentMinter = minter
			break
		}"""))
fire("c02-select-first-lower", ["C02"], ["C02.select"],
     (MINTGO, """		} else {
			if minter.SequenceId < currentId && minter.SequenceId > previousMinter.SequenceId {
				previousMinter = minter
			}
		}""", """		}"""))
silent("c02-select-merged-conditions", ["C02", "C10", "C19"],
       (MINTGO, """		if previousMinter == nil {
			if minter.SequenceId < currentId {
				previousMinter = minter
			}
		} else {
			if minter.SequenceId < currentId && minter.SequenceId > previousMinter.SequenceId {
				previousMinter = minter
			}
		}""", """		if minter.SequenceId < currentId && (previousMinter == nil || previousMinter.SequenceId < minter.SequenceId) {
			previousMinter = minter
		}"""))

# ---------------- round 4: minter parameter migration keeps the schedule ----------------
MIGM = "x/cfeminter/migrations/v3/params.go"
fire("c16-paramfields-seq-shifted", "C16", ["C16.paramfields"],
     (MIGM, "		newMinter.SequenceId = oldMinter.SequenceId\n", "		newMinter.SequenceId = oldMinter.SequenceId + 1\n"))
fire("c16-paramfields-start-now", "C16", ["C16.paramfields"],
     (MIGM, "	newParams.StartTime = oldParams.MinterConfig.StartTime\n", "	newParams.StartTime = ctx.BlockTime()\n"))
fire("c16-paramfields-first-only", "C16", ["C16.paramfields"],
     (MIGM, "		newMinter.Config = config\n	}", "		newMinter.Config = config\n		break\n	}"))
silent("c16-paramfields-literal", "C16",
       (MIGM, """		var newMinter types.Minter
		newMinter.SequenceId = oldMinter.SequenceId
		newMinter.EndTime = oldMinter.EndTime
""", """		newMinter := types.Minter{SequenceId: oldMinter.SequenceId, EndTime: oldMinter.EndTime}
"""))

# ---------------- round 4: the inflow is never dropped; persist always follows the transfer ----------------
DISTGO = "x/cfedistributor/keeper/distribution.go"
fire("c03-conserve-skip-small-inflow-in-block-routine", ["C03", "C04"], ["C03.conserve", "C04.conserve"],
     ("x/cfedistributor/abci.go", "		if allCoinsToDistribute.IsZero() {\n			continue\n		}", "		if allCoinsToDistribute.IsZero() || len(allCoinsToDistribute) > 3 {\n			continue\n		}"))
silent("c03-conserve-zero-test-named", ["C03", "C04"],
       ("x/cfedistributor/abci.go", "		if allCoinsToDistribute.IsZero() {\n			continue\n		}", "		if nothing := allCoinsToDistribute.IsZero(); nothing {\n			continue\n		}"))
fire("c03-conserve-early-return-in-routine", ["C03", "C04"], ["C03.conserve", "C04.conserve"],
     (DISTGO, "	localRemains = states\n", "	localRemains = states\n	if len(coinsToDistributeDec) > 3 {\n		return\n	}\n"))
VESTGO = "x/cfevesting/keeper/vesting.go"
fire("c05-pair-persist-skipped-for-large-amount", ["C05", "C06"], ["C05.pair", "C06.once"],
     (VESTGO, """	k.SetAccountVestingPools(ctx, accVestingPools)
	k.Logger(ctx).Debug("set account vesting pools", "ownerAddress", accVestingPools.Owner, "newVestingPools", accVestingPools.VestingPools)""", """	if toWithdraw.IsInt64() {
		k.SetAccountVestingPools(ctx, accVestingPools)
	}
	k.Logger(ctx).Debug("set account vesting pools", "ownerAddress", accVestingPools.Owner, "newVestingPools", accVestingPools.VestingPools)"""))
silent("c05-pair-persist-only-when-paid", ["C05", "C06"],
       (VESTGO, """	k.SetAccountVestingPools(ctx, accVestingPools)
	k.Logger(ctx).Debug("set account vesting pools", "ownerAddress", accVestingPools.Owner, "newVestingPools", accVestingPools.VestingPools)""", """	if toWithdraw.IsPositive() {
		k.SetAccountVestingPools(ctx, accVestingPools)
	}
	k.Logger(ctx).Debug("set account vesting pools", "ownerAddress", accVestingPools.Owner, "newVestingPools", accVestingPools.VestingPools)"""))

# ---------------- round-6 rules ----------------
SIGUTIL = "x/cfesignature/util/signature.go"
fire("c15-algtable-hash-of-another-row", "C15", ["C15.algtable"],
     (SIGUTIL, '	{x509.SHA256WithRSA, "sha256WithRsaEncryption", x509.RSA, crypto.SHA256},', '	{x509.SHA256WithRSA, "sha256WithRsaEncryption", x509.RSA, crypto.SHA384},'))
fire("c15-algtable-name-of-another-digest", "C15", ["C15.algtable"],
     (SIGUTIL, '	{x509.ECDSAWithSHA256, "ecdsaWithSha256", x509.ECDSA, crypto.SHA256},', '	{x509.ECDSAWithSHA256, "ecdsaWithSha384", x509.ECDSA, crypto.SHA256},'))
silent("c15-algtable-consistent-row-added", "C15",
       (SIGUTIL, '	{x509.SHA256WithRSA, "sha256WithRsaEncryption", x509.RSA, crypto.SHA256},', '	{x509.SHA256WithRSA, "sha256WithRsaEncryption", x509.RSA, crypto.SHA256},\n	{x509.SHA384WithRSA, "sha384WithRsaEncryption", x509.RSA, crypto.SHA384},'))
CONTAINS_OLD = "	for _, minter := range params.Minters {\n		if sequenceId == minter.SequenceId {\n			return true\n		}\n	}\n	return false\n}"
fire("c13-contains-stops-at-larger-id", ["C13", "C10"], ["C13.current", "C10.currentperiod"],
     (MINTYPES, CONTAINS_OLD, "	for _, minter := range params.Minters {\n		if sequenceId == minter.SequenceId {\n			return true\n		}\n		if minter.SequenceId > sequenceId {\n			return false\n		}\n	}\n	return false\n}"))
silent("c13-contains-index-loop", ["C13", "C10"],
       (MINTYPES, CONTAINS_OLD, "	for i := range params.Minters {\n		if params.Minters[i].SequenceId == sequenceId {\n			return true\n		}\n	}\n	return false\n}"))
fire("c12-import-traces-through-append", "C12", ["C12.verbatim"],
     ("x/cfevesting/genesis.go", "		k.SetVestingAccountTrace(ctx, elem)", "		k.AppendVestingAccountTrace(ctx, elem)"))
fire("c19-rate-from-truncated-amount", "C19", ["C19.sameprecision"],
     (MINTYPES, "	mintedYearly := epochAmount.MulInt64(int64(year)).QuoInt64(epoch)", "	mintedYearly := sdk.NewDecFromInt(epochAmount.TruncateInt()).MulInt64(int64(year)).QuoInt64(epoch)"))
# ---------------- round-7 rules ----------------
LOOKUP_OLD = "	for _, details := range signatureAlgorithmDetails {\n		if details.name == name {\n			return details.algo, nil\n		}\n	}\n"
fire("c15-alglookup-prefix-match", "C15", ["C15.alglookup"],
     (SIGUTIL, LOOKUP_OLD, "	for _, details := range signatureAlgorithmDetails {\n		if len(name) >= len(details.name) && name[:len(details.name)] == details.name {\n			return details.algo, nil\n		}\n	}\n"))
fire("c15-alglookup-default-algorithm", "C15", ["C15.alglookup"],
     (SIGUTIL, LOOKUP_OLD + "	return -1, sdkerrors.Wrap(sdkerrors.ErrNotSupported, \"signature algorithm not supported\")", LOOKUP_OLD + "	if name == \"\" {\n		return signatureAlgorithmDetails[0].algo, nil\n	}\n	return -1, sdkerrors.Wrap(sdkerrors.ErrNotSupported, \"signature algorithm not supported\")"))
silent("c15-alglookup-index-loop-operands-swapped", "C15",
       (SIGUTIL, LOOKUP_OLD, "	for i := range signatureAlgorithmDetails {\n		if name == signatureAlgorithmDetails[i].name {\n			return signatureAlgorithmDetails[i].algo, nil\n		}\n	}\n"))
GENV = "x/cfevesting/genesis.go"
IMPORT_POOLS_OLD = "	for _, av := range allAccountVestingPools {\n		k.Logger(ctx).Debug(\"set account vesting pools\", \"accountVestingPool\", av)\n		k.SetAccountVestingPools(ctx, *av)\n	}"
fire("c12-importall-skips-owner-without-pools", "C12", ["C12.importall"],
     (GENV, IMPORT_POOLS_OLD, "	for _, av := range allAccountVestingPools {\n		if len(av.VestingPools) == 0 {\n			continue\n		}\n		k.Logger(ctx).Debug(\"set account vesting pools\", \"accountVestingPool\", av)\n		k.SetAccountVestingPools(ctx, *av)\n	}"))
fire("c12-importall-stops-at-first-empty-owner", "C12", ["C12.importall"],
     (GENV, IMPORT_POOLS_OLD, "	for _, av := range allAccountVestingPools {\n		if av.Owner == \"\" {\n			break\n		}\n		k.Logger(ctx).Debug(\"set account vesting pools\", \"accountVestingPool\", av)\n		k.SetAccountVestingPools(ctx, *av)\n	}"))
silent("c12-importall-loop-behind-length-test", "C12",
       (GENV, IMPORT_POOLS_OLD, "	if len(allAccountVestingPools) > 0 {\n		for i := 0; i < len(allAccountVestingPools); i++ {\n			av := allAccountVestingPools[i]\n			k.Logger(ctx).Debug(\"set account vesting pools\", \"accountVestingPool\", av)\n			k.SetAccountVestingPools(ctx, *av)\n		}\n	}"))
EVENT_OLD = "		if withdrawable.IsPositive() {\n			events = append(events, types.WithdrawAvailable{\n				Owner:           owner,\n				VestingPoolName: vestingPool.Name,\n				Amount:          withdrawable.String() + denom,\n			})\n		}\n	}"
fire("c18-guard-event-needs-second-condition", "C18", ["C18.guard"],
     (VESTGO, EVENT_OLD, "		if withdrawable.IsPositive() && vestingPool.GetCurrentlyLocked().IsPositive() {\n			events = append(events, types.WithdrawAvailable{\n				Owner:           owner,\n				VestingPoolName: vestingPool.Name,\n				Amount:          withdrawable.String() + denom,\n			})\n		}\n	}"))
silent("c18-guard-continue-on-zero", "C18",
       (VESTGO, EVENT_OLD, "		if withdrawable.IsZero() {\n			continue\n		}\n		events = append(events, types.WithdrawAvailable{\n			Owner:           owner,\n			VestingPoolName: vestingPool.Name,\n			Amount:          withdrawable.String() + denom,\n		})\n	}"))
fire("c08-vested-alternative-ignores-free", "C08", ["C08.vested"],
     (VESTGO, "	startTime := lockEnd\n	if lockEnd.Before(ctx.BlockTime()) {\n		startTime = ctx.BlockTime()\n	}\n\n	_, err := k.newContinuousVestingAccount(", "	startTime := lockEnd\n	if lockEnd.Before(ctx.BlockTime()) {\n		startTime = ctx.BlockTime()\n		originalVesting = sdk.NewCoins(coinToSend)\n	}\n\n	_, err := k.newContinuousVestingAccount("))
fire("c17-split-success-return-before-lookup", "C17", ["C17.split"],
     (SPLIT, "	vAcc, found := k.GetVestingAccountTrace(ctx, from.String())", "	if amount.IsZero() {\n		return nil\n	}\n	vAcc, found := k.GetVestingAccountTrace(ctx, from.String())"))
# ---------------- round-8 rules ----------------
fire("c02-params-zero-multiplier-defaults-to-one", "C02", ["C02.params"],
     (MINTYPES, "	amountToMint := sdk.ZeroDec()\n	epochAmount := sdk.NewDecFromInt(m.Amount)\n	for i := int64(0); i < numOfPassedEpochs; i++ {\n		if i > 0 {\n			epochAmount = epochAmount.Mul(m.AmountMultiplier)",
      "	amountToMint := sdk.ZeroDec()\n	epochAmount := sdk.NewDecFromInt(m.Amount)\n	multiplier := m.AmountMultiplier\n	if multiplier.IsZero() {\n		multiplier = sdk.OneDec()\n	}\n	for i := int64(0); i < numOfPassedEpochs; i++ {\n		if i > 0 {\n			epochAmount = epochAmount.Mul(multiplier)"))
silent("c02-params-multiplier-in-a-local", "C02",
       (MINTYPES, "	amountToMint := sdk.ZeroDec()\n	epochAmount := sdk.NewDecFromInt(m.Amount)\n	for i := int64(0); i < numOfPassedEpochs; i++ {\n		if i > 0 {\n			epochAmount = epochAmount.Mul(m.AmountMultiplier)",
        "	amountToMint := sdk.ZeroDec()\n	epochAmount := sdk.NewDecFromInt(m.Amount)\n	multiplier := m.AmountMultiplier\n	for i := int64(0); i < numOfPassedEpochs; i++ {\n		if i > 0 {\n			epochAmount = epochAmount.Mul(multiplier)"))
fire("c12-verbatim-count-from-number-of-traces", "C12", ["C12.verbatim"],
     (GENV, "	k.SetVestingAccountTraceCount(ctx, genState.VestingAccountTraceCount)", "	k.SetVestingAccountTraceCount(ctx, uint64(len(genState.VestingAccountTraces)))"))
ENDT_OLD = "	if sequenceId == lastPos && minter.EndTime != nil {\n		return fmt.Errorf(\"last minter cannot have EndTime set, but is set to %s\", minter.EndTime)\n	}\n	if sequenceId < lastPos && minter.EndTime == nil {"
fire("c13-endtime-zero-time-is-unset", "C13", ["C13.endtime"],
     (MINTYPES, ENDT_OLD, "	if sequenceId == lastPos && minter.EndTime != nil && !minter.EndTime.IsZero() {\n		return fmt.Errorf(\"last minter cannot have EndTime set, but is set to %s\", minter.EndTime)\n	}\n	if sequenceId < lastPos && minter.EndTime == nil {"))
silent("c13-endtime-conditions-reordered", "C13",
       (MINTYPES, ENDT_OLD, "	hasEnd := minter.EndTime != nil\n	if hasEnd && sequenceId == lastPos {\n		return fmt.Errorf(\"last minter cannot have EndTime set, but is set to %s\", minter.EndTime)\n	}\n	if !hasEnd && lastPos > sequenceId {"))
# ---------------- round-9 rules ----------------
fire("c04-threshold-strictly-above-one", "C04", ["C04.threshold"],
     (DISTGO, "		if coin.Amount.GTE(sdk.NewDec(1)) {", "		if coin.Amount.GT(sdk.NewDec(1)) {"))
silent("c04-threshold-not-below-one", "C04",
       (DISTGO, "		if coin.Amount.GTE(sdk.NewDec(1)) {", "		if !coin.Amount.LT(sdk.OneDec()) {"))
fire("c14-success-return-between-transfer-and-booking", ["C14", "C01", "C04"], ["C14.success", "C01.success", "C04.carry"],
     (DISTGO, "		k.Logger(ctx).Debug(\"coins sent to base account dst\", \"accountId\", state.Account.Id, \"toSend\", toSend)", "		k.Logger(ctx).Debug(\"coins sent to base account dst\", \"accountId\", state.Account.Id, \"toSend\", toSend)\n		if toSend.IsZero() {\n			return\n		}"))
fire("c05-loopvar-pointer-to-range-variable-kept", "C05", ["C05.loopvar"],
     (VESTGO, "	events := make([]types.WithdrawAvailable, 0)\n	denom := k.GetParams(ctx).Denom\n	for _, vestingPool := range accVestingPools.VestingPools {", "	events := make([]types.WithdrawAvailable, 0)\n	denom := k.GetParams(ctx).Denom\n	var lastSeen **types.VestingPool\n	defer func() {\n		if lastSeen != nil {\n			k.Logger(ctx).Debug(\"last pool\", \"pool\", *lastSeen)\n		}\n	}()\n	for _, vestingPool := range accVestingPools.VestingPools {\n		lastSeen = &vestingPool"))
fire("c12-verbatim-owner-lowercased-on-import", ["C12", "C05"], ["C12.verbatim", "C05.gen"],
     (GENV, "		k.Logger(ctx).Debug(\"set account vesting pools\", \"accountVestingPool\", av)\n		k.SetAccountVestingPools(ctx, *av)", "		k.Logger(ctx).Debug(\"set account vesting pools\", \"accountVestingPool\", av)\n		av.Owner = sdk.MustAccAddressFromBech32(av.Owner).String()\n		k.SetAccountVestingPools(ctx, *av)"))
fire("c05-gen-balance-in-default-denom", ["C05", "C12"], ["C05.gen", "C12.importall"],
     (GENV, "	modBalance := bk.GetBalance(ctx, mAcc.GetAddress(), genState.Params.Denom)", "	modBalance := bk.GetBalance(ctx, mAcc.GetAddress(), types.DefaultDenom)"))
# ---------------- round-10 rules ----------------
fire("c12-initorder-distributor-behind-crisis", "C12", ["C12.initorder"],
     ("app/app.go", "		govtypes.ModuleName,\n		cfedistributormoduletypes.ModuleName,\n		cfevestingmoduletypes.ModuleName,\n		crisistypes.ModuleName,", "		govtypes.ModuleName,\n		cfevestingmoduletypes.ModuleName,\n		crisistypes.ModuleName,\n		cfedistributormoduletypes.ModuleName,"))
fire("c07-guard-split-refused-after-the-end", "C07", ["C07.guard"],
     (SPLIT, "	startTime := ctx.BlockTime().Unix()\n	if vestingAcc.StartTime > startTime {\n		startTime = vestingAcc.StartTime\n	}", "	startTime := ctx.BlockTime().Unix()\n	if vestingAcc.StartTime > startTime {\n		startTime = vestingAcc.StartTime\n	}\n	if startTime >= vestingAcc.EndTime {\n		return sdkerrors.Wrapf(types.ErrParam, \"split vesting coins - vesting already ended\")\n	}"))
fire("c08-fresh-blocked-address-asked-after-creation", "C08", ["C08.fresh"],
     (VESTGO, "	if bk.BlockedAddr(toAddress) {\n		k.Logger(ctx).Debug(\"new vesting account is not allowed to receive funds error\", \"address\", toAddress)\n		return sdkerrors.Wrapf(types.ErrAccountNotAllowedToReceiveFunds, \"new vesting account - account address: %s\", toAddress)\n	}\n\n	if acc := ak.GetAccount(ctx, toAddress); acc != nil {", "	if acc := ak.GetAccount(ctx, toAddress); acc != nil {"),
     (VESTGO, "	coinsToSend := sdk.NewCoins(coinToSend)\n	err = k.bank.SendCoinsFromModuleToAccount(ctx, types.ModuleName, toAddress, coinsToSend)", "	if bk.BlockedAddr(toAddress) {\n		return sdkerrors.Wrapf(types.ErrAccountNotAllowedToReceiveFunds, \"new vesting account - account address: %s\", toAddress)\n	}\n	coinsToSend := sdk.NewCoins(coinToSend)\n	err = k.bank.SendCoinsFromModuleToAccount(ctx, types.ModuleName, toAddress, coinsToSend)"))
# ---------------- round-11 rules ----------------
AVP = "x/cfevesting/keeper/account_vesting_pools.go"
fire("c05-key-accessor-canonicalises-owner", "C05", ["C05.key"],
     (AVP, "	store.Set([]byte(accountVestingPools.Owner), av)", "	store.Set([]byte(sdk.MustAccAddressFromBech32(accountVestingPools.Owner).String()), av)"))
silent("c05-key-accessor-key-in-a-local", "C05",
       (AVP, "	store.Set([]byte(accountVestingPools.Owner), av)", "	owner := accountVestingPools.Owner\n	key := []byte(owner)\n	store.Set(key, av)"))
MVD_OLD = "			amount = amount.Add(sdk.NewCoin(denom, denAmount))"
fire("c07-move-amount-appended-raw", "C07", ["C07.move"],
     (MVD, MVD_OLD, "			amount = append(amount, sdk.NewCoin(denom, denAmount))"))
silent("c07-move-amount-added-as-a-set", "C07",
       (MVD, MVD_OLD, "			amount = amount.Add(sdk.NewCoins(sdk.NewCoin(denom, denAmount))...)"))
fire("c03-burnkey-id-through-address-rendering", ["C03", "C04"], ["C03.burnkey", "C04.key"],
     (DISTYPES, "	return account.Type + \"-\" + account.Id\n", "	if addr, err := sdk.AccAddressFromBech32(account.Id); err == nil {\n		return account.Type + \"-\" + addr.String()\n	}\n	return account.Type + \"-\" + account.Id\n"))
silent("c03-burnkey-sprintf", ["C03", "C04"],
       (DISTYPES, "	return account.Type + \"-\" + account.Id\n", "	return fmt.Sprintf(\"%s-%s\", account.Type, account.Id)\n"))
fire("c13-errprop-primary-share-error-shadowed", "C13", ["C13.errprop"],
     (DISTYPES, "	if err := destinations.PrimaryShare.Validate(); err != nil {\n		return fmt.Errorf(\"primary share validation error: %w\", err)\n	}\n	if err := destinations.CheckIfSharesSumIsBetween0And1(); err != nil {\n		return err\n	}\n	return nil",
      "	var err error\n	if err := destinations.PrimaryShare.Validate(); err != nil {\n		err = fmt.Errorf(\"primary share validation error: %w\", err)\n	}\n	if err != nil {\n		return err\n	}\n	if err := destinations.CheckIfSharesSumIsBetween0And1(); err != nil {\n		return err\n	}\n	return nil"))
silent("c13-errprop-errors-through-one-variable", "C13",
       (DISTYPES, "	if err := destinations.PrimaryShare.Validate(); err != nil {\n		return fmt.Errorf(\"primary share validation error: %w\", err)\n	}\n	if err := destinations.CheckIfSharesSumIsBetween0And1(); err != nil {\n		return err\n	}\n	return nil",
        "	err := destinations.PrimaryShare.Validate()\n	if err != nil {\n		return fmt.Errorf(\"primary share validation error: %w\", err)\n	}\n	err = destinations.CheckIfSharesSumIsBetween0And1()\n	return err"))
fire("c15-args-second-pem-block-preferred", "C15", ["C15.args"],
     (SIGUTIL, "	block, _ := pem.Decode(inputCert)\n", "	block, rest := pem.Decode(inputCert)\n	if next, _ := pem.Decode(rest); next != nil {\n		block = next\n	}\n"))
silent("c15-args-rest-named-and-dropped", "C15",
       (SIGUTIL, "	block, _ := pem.Decode(inputCert)\n", "	block, rest := pem.Decode(inputCert)\n	_ = rest\n"))
fire("c16-atomic-invalid-result-logged-not-stored", "C16", ["C16.atomic"],
     (VUP, "	appKeepers.GetC4eVestingKeeper().SetAccountVestingPools(ctx, *vestingPoolsP)\n\n	return nil\n}", "	if len(vestingPoolsP.VestingPools) > 64 {\n		ctx.Logger().Error(\"too many pools\", \"owner\", vestingPoolsP.Owner)\n		return nil\n	}\n	appKeepers.GetC4eVestingKeeper().SetAccountVestingPools(ctx, *vestingPoolsP)\n\n	return nil\n}"))
fire("c20-zerolit-named-coin-returned-with-nil-error", "C20", ["C20.zerolit"],
     (VESTGO, "		return withdrawn, sdkerrors.Wrapf(sdkerrors.ErrNotFound, \"withdraw all available - no vesting pools found error: owner: %s\", owner)", "		return withdrawn, nil"))
silent("c20-zerolit-error-through-named-result-and-bare-return", "C20",
       (VESTGO, "		return withdrawn, sdkerrors.Wrapf(sdkerrors.ErrNotFound, \"withdraw all available - no vesting pools found error: owner: %s\", owner)", "		returnedError = sdkerrors.Wrapf(sdkerrors.ErrNotFound, \"withdraw all available - no vesting pools found error: owner: %s\", owner)\n		return"))
silent("c16-atomic-store-under-nil-error-single-return", "C16",
       (VUP, "	_, err = splitVestingPool(vestingPoolsP, validatorsVestingPools, strategicReserveShortTermRoundPoolName, strategicReserveShortTermRoundTypeName, strategicReserveShortTermRoundUc4e, 2, 0)\n	if err != nil {\n		return err\n	}\n\n	appKeepers.GetC4eVestingKeeper().SetAccountVestingPools(ctx, *vestingPoolsP)\n\n	return nil\n}",
        "	_, err = splitVestingPool(vestingPoolsP, validatorsVestingPools, strategicReserveShortTermRoundPoolName, strategicReserveShortTermRoundTypeName, strategicReserveShortTermRoundUc4e, 2, 0)\n	if err == nil {\n		appKeepers.GetC4eVestingKeeper().SetAccountVestingPools(ctx, *vestingPoolsP)\n	}\n	return err\n}"))
silent("c13-errprop-chained-through-one-variable", "C13",
       (DISTYPES, "	if err := destinations.PrimaryShare.Validate(); err != nil {\n		return fmt.Errorf(\"primary share validation error: %w\", err)\n	}\n	if err := destinations.CheckIfSharesSumIsBetween0And1(); err != nil {\n		return err\n	}\n	return nil",
        "	err := destinations.PrimaryShare.Validate()\n	if err != nil {\n		err = fmt.Errorf(\"primary share validation error: %w\", err)\n	}\n	if err == nil {\n		err = destinations.CheckIfSharesSumIsBetween0And1()\n	}\n	return err"))
silent("c15-args-first-block-through-helper", "C15",
       (SIGUTIL, "	block, _ := pem.Decode(inputCert)\n", "	block := firstPEMBlock(inputCert)\n"),
       (SIGUTIL, "func GetUserCertificateFromString(", "func firstPEMBlock(data []byte) *pem.Block {\n	block, _ := pem.Decode(data)\n	return block\n}\n\nfunc GetUserCertificateFromString("))
silent("c05-key-accessors-share-a-key-helper", ["C05", "C06"],
       (AVP, "	store.Set([]byte(accountVestingPools.Owner), av)", "	store.Set(poolsKey(accountVestingPools.Owner), av)"),
       (AVP, "	b := store.Get([]byte(accountAddress))", "	b := store.Get(poolsKey(accountAddress))"),
       (AVP, "	key := []byte(accountAddress)", "	key := poolsKey(accountAddress)"),
       (AVP, "// get the vesting types\nfunc (k Keeper) GetAccountVestingPools(", "func poolsKey(owner string) []byte {\n	return []byte(owner)\n}\n\n// get the vesting types\nfunc (k Keeper) GetAccountVestingPools("))
silent("c07-move-amount-built-by-helper", "C07",
       (MVD, "	amount := sdk.NewCoins()\n	for _, denom := range msg.Denoms {\n		if len(denom) == 0 {\n			return nil, sdkerrors.Wrapf(types.ErrParam, \"move available vesting by denoms - empty denom\")\n		}\n		denAmount := locked.AmountOf(denom)\n		if denAmount.IsPositive() {\n			amount = amount.Add(sdk.NewCoin(denom, denAmount))\n		}\n	}\n",
        "	amount, err := lockedOfDenoms(locked, msg.Denoms)\n	if err != nil {\n		return nil, err\n	}\n"),
       (MVD, "func (k msgServer) MoveAvailableVestingByDenoms(", "func lockedOfDenoms(locked sdk.Coins, denoms []string) (sdk.Coins, error) {\n	amount := sdk.NewCoins()\n	for _, denom := range denoms {\n		if len(denom) == 0 {\n			return nil, sdkerrors.Wrapf(types.ErrParam, \"move available vesting by denoms - empty denom\")\n		}\n		denAmount := locked.AmountOf(denom)\n		if denAmount.IsPositive() {\n			amount = amount.Add(sdk.NewCoin(denom, denAmount))\n		}\n	}\n	return amount, nil\n}\n\nfunc (k msgServer) MoveAvailableVestingByDenoms("))
WAA_SEND = "	if toWithdraw.GT(sdk.ZeroInt()) {\n		coinToSend := sdk.NewCoin(denom, toWithdraw)\n		coinsToSend := sdk.NewCoins(coinToSend)\n		err = k.bank.SendCoinsFromModuleToAccount(ctx, types.ModuleName, ownerAddress, coinsToSend)\n		if err != nil {"
silent("c05-pair-send-guard-as-not-zero-or-negative", ["C05", "C06", "C18", "C20"],
       (VESTGO, WAA_SEND, "	if !toWithdraw.LTE(sdk.ZeroInt()) {\n		coinsToSend := sdk.NewCoins(sdk.NewCoin(denom, toWithdraw))\n		err = k.bank.SendCoinsFromModuleToAccount(ctx, types.ModuleName, ownerAddress, coinsToSend)\n		if err != nil {"))
silent("c05-pair-send-in-helper-returning-error", ["C05", "C06", "C18", "C20"],
       (VESTGO, WAA_SEND + "\n			k.Logger(ctx).Error(\"withdraw all available sending coins to vesting account error\", \"owner\", owner, \"error\", err.Error())\n			return withdrawn, sdkerrors.Wrap(types.ErrSendCoins, sdkerrors.Wrapf(err, \"withdraw all available - send coins to vesting account error: owner: %s\", owner).Error())\n		}\n	}\n",
        "	if err = k.payWithdrawn(ctx, ownerAddress, denom, toWithdraw); err != nil {\n		k.Logger(ctx).Error(\"withdraw all available sending coins to vesting account error\", \"owner\", owner, \"error\", err.Error())\n		return withdrawn, sdkerrors.Wrap(types.ErrSendCoins, sdkerrors.Wrapf(err, \"withdraw all available - send coins to vesting account error: owner: %s\", owner).Error())\n	}\n"),
       (VESTGO, "func (k Keeper) SendToNewVestingAccount(", "func (k Keeper) payWithdrawn(ctx sdk.Context, to sdk.AccAddress, denom string, amount math.Int) error {\n	if !amount.IsPositive() {\n		return nil\n	}\n	return k.bank.SendCoinsFromModuleToAccount(ctx, types.ModuleName, to, sdk.NewCoins(sdk.NewCoin(denom, amount)))\n}\n\nfunc (k Keeper) SendToNewVestingAccount("))
silent("c18-guard-events-collected-after-the-loop-by-index", ["C18", "C05"],
       (VESTGO, "		if withdrawable.IsPositive() {\n			events = append(events, types.WithdrawAvailable{\n				Owner:           owner,\n				VestingPoolName: vestingPool.Name,\n				Amount:          withdrawable.String() + denom,\n			})\n		}\n	}",
        "		if !withdrawable.IsPositive() {\n			continue\n		}\n		event := types.WithdrawAvailable{\n			Owner:           owner,\n			VestingPoolName: vestingPool.Name,\n			Amount:          withdrawable.String() + denom,\n		}\n		events = append(events, event)\n	}"))
silent("c07-transfer-through-a-thin-keeper-helper", ["C07", "C09", "C17", "C20"],
       (SPLIT, "	if err = k.bank.SendCoins(ctx, from, toAddress, amount); err != nil {\n		return sdkerrors.Wrap(err, \"split vesting coins\")\n	}\n", "	if err = k.moveCoins(ctx, from, toAddress, amount); err != nil {\n		return sdkerrors.Wrap(err, \"split vesting coins\")\n	}\n"),
       (SPLIT, "func (k msgServer) splitVestingCoins(", "func (k msgServer) moveCoins(ctx sdk.Context, from, to sdk.AccAddress, amount sdk.Coins) error {\n	return k.bank.SendCoins(ctx, from, to, amount)\n}\n\nfunc (k msgServer) splitVestingCoins("))
silent("c05-lock-coins-through-a-helper-handed-the-amount", ["C05", "C08", "C20"],
       (VESTGO, "	coinToSend := sdk.NewCoin(denom, amount)\n	coinsToSend := sdk.NewCoins(coinToSend)\n	err := k.bank.SendCoinsFromAccountToModule(ctx, accAddress, types.ModuleName, coinsToSend)\n	if err != nil {\n		k.Logger(ctx).Error(\"add vesting pool sendig coins to vesting pool error\"",
        "	err := k.lockInModule(ctx, accAddress, denom, amount)\n	if err != nil {\n		k.Logger(ctx).Error(\"add vesting pool sendig coins to vesting pool error\""),
       (VESTGO, "func (k Keeper) SendToNewVestingAccount(", "func (k Keeper) lockInModule(ctx sdk.Context, from sdk.AccAddress, denom string, amount math.Int) error {\n	return k.bank.SendCoinsFromAccountToModule(ctx, from, types.ModuleName, sdk.NewCoins(sdk.NewCoin(denom, amount)))\n}\n\nfunc (k Keeper) SendToNewVestingAccount("))
silent("c07-guard-condition-in-a-bool-local", ["C07", "C20"],
       ("x/cfevesting/keeper/vesting_account_split.go", "	if !amountToUnlock.IsAllLTE(lockedCoins) {", "	enoughLocked := amountToUnlock.IsAllLTE(lockedCoins)\n	if !enoughLocked {"))
silent("c09-fresh-existence-in-a-bool-local", ["C09", "C07", "C08"],
       (SPLIT, "	if acc := k.account.GetAccount(ctx, toAddress); acc != nil {", "	recipientExists := k.account.GetAccount(ctx, toAddress) != nil\n	if recipientExists {"))
silent("c09-fresh-existence-through-hasaccount", ["C09", "C07", "C08"],
       (SPLIT, "	if acc := k.account.GetAccount(ctx, toAddress); acc != nil {", "	if k.recipientExists(ctx, toAddress) {"),
       (SPLIT, "func (k msgServer) splitVestingCoins(", "func (k msgServer) recipientExists(ctx sdk.Context, address sdk.AccAddress) bool {\n	return k.account.GetAccount(ctx, address) != nil\n}\n\nfunc (k msgServer) splitVestingCoins("))
fire("c09-fresh-existence-predicate-inverted", "C09", ["C09.fresh"],
     (SPLIT, "	if acc := k.account.GetAccount(ctx, toAddress); acc != nil {", "	if k.recipientFree(ctx, toAddress) {"),
     (SPLIT, "func (k msgServer) splitVestingCoins(", "func (k msgServer) recipientFree(ctx sdk.Context, address sdk.AccAddress) bool {\n	return k.account.GetAccount(ctx, address) == nil\n}\n\nfunc (k msgServer) splitVestingCoins("))
MINTGO = "x/cfeminter/keeper/mint.go"
silent("c02-nonneg-amount-through-a-helper-and-bool-local", ["C01", "C02", "C10", "C19", "C20"],
       (MINTGO, "	amount := expectedAmountToMint.TruncateInt().Sub(minterState.AmountMinted)\n	if amount.IsNegative() {", "	amount := stillToMint(expectedAmountToMint, minterState.AmountMinted)\n	nothingToMint := amount.IsNegative()\n	if nothingToMint {"),
       (MINTGO, "func (k Keeper) mint(", "func stillToMint(expected sdk.Dec, alreadyMinted math.Int) math.Int {\n	return expected.TruncateInt().Sub(alreadyMinted)\n}\n\nfunc (k Keeper) mint("))
silent("c02-start-time-through-a-helper", ["C01", "C02", "C10", "C19", "C20"],
       (MINTGO, "	var startTime time.Time\n	if previousMinter == nil {\n		startTime = params.StartTime\n	} else {\n		startTime = *previousMinter.EndTime\n	}\n", "	startTime := periodStart(params, previousMinter)\n"),
       (MINTGO, "func (k Keeper) mint(", "func periodStart(params *types.Params, previousMinter *types.Minter) time.Time {\n	if previousMinter == nil {\n		return params.StartTime\n	}\n	return *previousMinter.EndTime\n}\n\nfunc (k Keeper) mint("))
silent("c01-mint-coins-error-check-inline", ["C01", "C02", "C10", "C20"],
       (MINTGO, "	err := k.MintCoins(ctx, coins)\n	if err != nil {\n		k.Logger(ctx).Error(\"mint - mint coins error\", \"lev\", level, \"error\", err.Error())\n		return sdk.ZeroInt(), sdkerrors.Wrap(err, \"minter mint coins error\")\n	}\n\n	err = k.SendMintedCoins(ctx, coins)\n	if err != nil {",
        "	if err := k.MintCoins(ctx, coins); err != nil {\n		k.Logger(ctx).Error(\"mint - mint coins error\", \"lev\", level, \"error\", err.Error())\n		return sdk.ZeroInt(), sdkerrors.Wrap(err, \"minter mint coins error\")\n	}\n\n	err := k.SendMintedCoins(ctx, coins)\n	if err != nil {"))
NVA_OV = "	decimalAmount := sdk.NewDecFromInt(amount)\n	originalVestingAmount := decimalAmount.Sub(decimalAmount.Mul(free)).TruncateInt()\n	originalVestingCoin := sdk.NewCoin(denom, originalVestingAmount)\n	originalVesting := sdk.NewCoins(originalVestingCoin)\n"
silent("c08-vested-original-vesting-through-a-helper", ["C08", "C05", "C09", "C20"],
       (VESTGO, NVA_OV, "	originalVesting := vestedPart(denom, amount, free)\n"),
       (VESTGO, "func (k Keeper) newContinuousVestingAccount(", "func vestedPart(denom string, amount math.Int, free sdk.Dec) sdk.Coins {\n	decimalAmount := sdk.NewDecFromInt(amount)\n	vested := decimalAmount.Sub(decimalAmount.Mul(free)).TruncateInt()\n	return sdk.NewCoins(sdk.NewCoin(denom, vested))\n}\n\nfunc (k Keeper) newContinuousVestingAccount("))
silent("c08-schedule-start-through-a-later-of-helper", ["C08", "C05", "C20"],
       (VESTGO, "	startTime := lockEnd\n	if lockEnd.Before(ctx.BlockTime()) {\n		startTime = ctx.BlockTime()\n	}\n\n	_, err := k.newContinuousVestingAccount(", "	startTime := laterOf(lockEnd, ctx.BlockTime())\n\n	_, err := k.newContinuousVestingAccount("),
       (VESTGO, "func (k Keeper) newContinuousVestingAccount(", "func laterOf(a, b time.Time) time.Time {\n	if a.Before(b) {\n		return b\n	}\n	return a\n}\n\nfunc (k Keeper) newContinuousVestingAccount("))
silent("c08-fresh-prechecks-in-one-helper", ["C08", "C05", "C09", "C20"],
       (VESTGO, "	ak := k.account\n	bk := k.bank\n	coinToSend := sdk.NewCoin(denom, amount)\n", "	ak := k.account\n	coinToSend := sdk.NewCoin(denom, amount)\n"),
       (VESTGO, "	if err := bk.IsSendEnabledCoins(ctx, coinToSend); err != nil {\n		k.Logger(ctx).Debug(\"new vesting account is send coins disabled error\", \"error\", err.Error())\n		return sdkerrors.Wrapf(err, \"new vesting account - is send coins disabled\")\n	}\n\n	if bk.BlockedAddr(toAddress) {\n		k.Logger(ctx).Debug(\"new vesting account is not allowed to receive funds error\", \"address\", toAddress)\n		return sdkerrors.Wrapf(types.ErrAccountNotAllowedToReceiveFunds, \"new vesting account - account address: %s\", toAddress)\n	}\n",
        "	if err := k.mayReceive(ctx, toAddress, coinToSend); err != nil {\n		return err\n	}\n"),
       (VESTGO, "func (k Keeper) newContinuousVestingAccount(", "func (k Keeper) mayReceive(ctx sdk.Context, toAddress sdk.AccAddress, coinToSend sdk.Coin) error {\n	if err := k.bank.IsSendEnabledCoins(ctx, coinToSend); err != nil {\n		k.Logger(ctx).Debug(\"new vesting account is send coins disabled error\", \"error\", err.Error())\n		return sdkerrors.Wrapf(err, \"new vesting account - is send coins disabled\")\n	}\n	if k.bank.BlockedAddr(toAddress) {\n		k.Logger(ctx).Debug(\"new vesting account is not allowed to receive funds error\", \"address\", toAddress)\n		return sdkerrors.Wrapf(types.ErrAccountNotAllowedToReceiveFunds, \"new vesting account - account address: %s\", toAddress)\n	}\n	return nil\n}\n\nfunc (k Keeper) newContinuousVestingAccount("))
SWEEP_MOD = "	coinsToSend := k.GetAccountCoinsForModuleAccount(ctx, source.Id)\n	coinsToDistribute := sdk.NewDecCoinsFromCoins(coinsToSend...)\n\n	if len(coinsToDistribute) > 0 {\n		err := k.SendCoinsFromModuleToModule(ctx, coinsToSend, source.Id, types.DistributorMainAccount)\n		if err != nil {\n			k.Logger(ctx).Error(\"prep coins module - send coins to main account\", \"subDistributorName\", subDistributorName, \"source\", source, \"error\", err.Error())\n			return nil\n		}\n	}\n"
silent("c14-sweep-empty-balance-returns-early", ["C01", "C03", "C14", "C18", "C10"],
       (DISTGO, SWEEP_MOD, "	coinsToSend := k.GetAccountCoinsForModuleAccount(ctx, source.Id)\n	coinsToDistribute := sdk.NewDecCoinsFromCoins(coinsToSend...)\n	if coinsToDistribute.Empty() {\n		k.Logger(ctx).Debug(\"prepare coins to distribute for module account\", \"subDistr\", subDistributorName,\n			\"account\", source.Id, \"coinsToDistribute\", coinsToDistribute.String())\n		return coinsToDistribute\n	}\n	if err := k.SendCoinsFromModuleToModule(ctx, coinsToSend, source.Id, types.DistributorMainAccount); err != nil {\n		k.Logger(ctx).Error(\"prep coins module - send coins to main account\", \"subDistributorName\", subDistributorName, \"source\", source, \"error\", err.Error())\n		return nil\n	}\n"))
silent("c14-sweep-swept-through-a-bool-helper", ["C01", "C03", "C14", "C18", "C10"],
       (DISTGO, SWEEP_MOD, "	coinsToSend := k.GetAccountCoinsForModuleAccount(ctx, source.Id)\n	coinsToDistribute := sdk.NewDecCoinsFromCoins(coinsToSend...)\n\n	if len(coinsToDistribute) > 0 && !k.sweepModule(ctx, coinsToSend, source, subDistributorName) {\n		return nil\n	}\n"),
       (DISTGO, "func (k Keeper) prepareCoinToDistributeForModuleAccount(", "func (k Keeper) sweepModule(ctx sdk.Context, coinsToSend sdk.Coins, source types.Account, subDistributorName string) bool {\n	err := k.SendCoinsFromModuleToModule(ctx, coinsToSend, source.Id, types.DistributorMainAccount)\n	if err != nil {\n		k.Logger(ctx).Error(\"prep coins module - send coins to main account\", \"subDistributorName\", subDistributorName, \"source\", source, \"error\", err.Error())\n		return false\n	}\n	return true\n}\n\nfunc (k Keeper) prepareCoinToDistributeForModuleAccount("))
fire("c14-sweep-bool-helper-answers-true-after-a-failure", ["C14", "C01"], ["C14.sweep", "C01.sweep"],
     (DISTGO, SWEEP_MOD, "	coinsToSend := k.GetAccountCoinsForModuleAccount(ctx, source.Id)\n	coinsToDistribute := sdk.NewDecCoinsFromCoins(coinsToSend...)\n\n	if len(coinsToDistribute) > 0 && !k.sweepModule(ctx, coinsToSend, source, subDistributorName) {\n		return nil\n	}\n"),
     (DISTGO, "func (k Keeper) prepareCoinToDistributeForModuleAccount(", "func (k Keeper) sweepModule(ctx sdk.Context, coinsToSend sdk.Coins, source types.Account, subDistributorName string) bool {\n	err := k.SendCoinsFromModuleToModule(ctx, coinsToSend, source.Id, types.DistributorMainAccount)\n	if err != nil {\n		k.Logger(ctx).Error(\"prep coins module - send coins to main account\", \"subDistributorName\", subDistributorName, \"source\", source, \"error\", err.Error())\n	}\n	return true\n}\n\nfunc (k Keeper) prepareCoinToDistributeForModuleAccount("))
