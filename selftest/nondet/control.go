// Package nondetcontrol holds one deliberate instance of every nondeterminism source the C11 rules look
// for. The checker loads it on every run and must report each of them (positive controls for the rows whose
// expected count on the repository is zero). It is never linked into anything.
package nondetcontrol

import (
	crand "crypto/rand"
	"math/rand"
	"os"
	"reflect"
	"sort"
	"sync"
	"time"
)

var global int

func MapOrderDependent(m map[string]int) string {
	for k := range m {
		if m[k] > 1 {
			return k // which key is returned depends on the iteration order
		}
	}
	return ""
}

func MapOrderAppend(m map[string]int) []string {
	var out []string
	for k := range m {
		out = append(out, k)
	}
	return out
}

// MapSortedOK is order-insensitive: keys are collected and sorted before use (must stay silent).
func MapSortedOK(m map[string]int) []string {
	out := make([]string, 0, len(m))
	for k := range m {
		out = append(out, k)
	}
	sort.Strings(out)
	return out
}

// MapCopyOK only inserts into another map (must stay silent).
func MapCopyOK(m map[string]int) map[string]bool {
	out := map[string]bool{}
	for k := range m {
		out[k] = true
	}
	return out
}

func WallClock() int64 { return time.Now().Unix() }

func MathRand() int { return rand.Int() }

func CryptoRand() byte {
	b := make([]byte, 1)
	_, _ = crand.Read(b)
	return b[0]
}

func Env() string { return os.Getenv("HOME") }

func Goroutine(c chan int) { go func() { c <- 1 }() }

func Select(a, b chan int) int {
	select {
	case x := <-a:
		return x
	case y := <-b:
		return y
	}
}

func ReflectKeys(m map[string]int) int { return len(reflect.ValueOf(m).MapKeys()) }

func SyncMap(m *sync.Map) (n int) {
	m.Range(func(k, v interface{}) bool { n++; return true })
	return
}

func WriteGlobal(x int) { global = x }

func Float(x int64) int64 { return int64(float64(x) * 0.3) }

// process-local state held by a keeper
type cacheT struct {
	n  int
	bz []byte
}

type Keeper struct {
	cache *cacheT
	seen  map[string]bool
}

func WriteKeeperCache(k Keeper, x int) { k.cache.n = x }

func WriteKeeperMap(k *Keeper, s string) { k.seen[s] = true }

func LocalCopyOK(k Keeper, x int) int {
	c := cacheT{}
	c.n = x
	return c.n + k.cache.n
}

// local time zone
func LocalZoneText(sec int64) string { return time.Unix(sec, 0).String() }

func LocalZoneAddDate(sec int64) int64 { return time.Unix(sec, 0).AddDate(1, 0, 0).Unix() }

func LocalZoneInstantOK(sec int64, d time.Duration) int64 { return time.Unix(sec, 0).Add(d).Unix() }

func LocalZoneUTCOK(sec int64) string { return time.Unix(sec, 0).UTC().AddDate(1, 0, 0).String() }

// bootTime is initialised by every process for itself.
var bootTime = time.Now()

// HostGlobal reads a package variable initialised from the wall clock.
func HostGlobal() int64 { return bootTime.Unix() }

var fixedEpoch = time.Unix(1700000000, 0).UTC()

// ConstGlobalOK reads a package variable with a fixed initialiser.
func ConstGlobalOK() int64 { return fixedEpoch.Unix() }

// ---- loop variable controls (go.mod says go < 1.22: one variable per loop) ----

type row struct {
	name string
	val  int
}

// LoopVarAddrKept keeps the address of a field of the range variable beyond the iteration.
func LoopVarAddrKept(rows []row, want string) int {
	var hit *int
	for _, r := range rows {
		if hit == nil && r.name == want {
			hit = &r.val
		}
	}
	if hit != nil {
		return *hit
	}
	return -1
}

// LoopVarClosureKept keeps a closure over the range variable and calls it after the loop.
func LoopVarClosureKept(rows []row, want string) int {
	get := func() int { return -1 }
	for _, r := range rows {
		if r.name == want {
			get = func() int { return r.val }
		}
	}
	return get()
}

// LoopVarStoredByCallee hands the address of the range variable to a function that stores it.
func LoopVarStoredByCallee(rows []row) map[string]*row {
	m := map[string]*row{}
	for _, r := range rows {
		remember(m, &r)
	}
	return m
}

func remember(m map[string]*row, r *row) { m[r.name] = r }

// LoopVarUsedInIterationOK takes the address only for a call that does not keep it.
func LoopVarUsedInIterationOK(rows []row) int {
	n := 0
	for _, r := range rows {
		n += read(&r)
	}
	return n
}

func read(r *row) int { return r.val }

// LoopVarCopyOK copies the element into a variable of the iteration before its address is kept.
func LoopVarCopyOK(rows []row) []*row {
	var out []*row
	for _, r := range rows {
		c := r
		out = append(out, &c)
	}
	return out
}
