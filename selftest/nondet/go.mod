module nondetcontrol

go 1.19
