#!/usr/bin/env python3
"""run go test -json in a repo dir and compare with BASELINE stable_pass"""
import json, subprocess, sys, os
repo = sys.argv[1]
env = dict(os.environ, GOFLAGS='-mod=mod', GOPROXY='off', GOSUMDB='off', GOTOOLCHAIN='local')
env.pop('GOWORK', None)
p = subprocess.run(['go','test','-mod=mod','-json','-vet=off','-count=1','-timeout','25m','./...'], cwd=repo, env=env, capture_output=True, text=True)
res = {}
for line in p.stdout.splitlines():
    try: ev = json.loads(line)
    except Exception: continue
    if ev.get('Action') in ('pass','fail','skip') and ev.get('Test'):
        res[ev['Package']+'::'+ev['Test']] = ev['Action']
base = json.load(open('/root/.vp/BASELINE.json'))['stable_pass']
bad = [t for t in base if res.get(t) != 'pass']
print('stable_pass total', len(base), 'now passing', len(base)-len(bad))
for t in bad: print('  NOT PASS:', t, res.get(t))
sys.exit(1 if bad else 0)
