#!/usr/bin/env python3
"""Generates /verif/MANIFEST.json from the table below (kept in one place so the manifest is always valid)."""
import json, os
HERE = os.path.dirname(os.path.abspath(__file__)); VERIF = os.path.dirname(HERE)
exec(open(os.path.join(HERE, "manifest_table.py")).read())
checks = []
for pid, c in sorted(CLAIMED.items()):
    checks.append({
        "property_id": pid,
        "quick_cmd": "./check %s quick" % pid,
        "thorough_cmd": "./check %s thorough" % pid,
        "evidence_file": "/verif/evidence/%s.json" % pid,
        "replay_cmd_template": "./check %s --explain {path}" % pid,
        "engine": "c4echeck",
        "level_claimed": {"category": "other", "text": c["text"], "design_ref": c.get("design_ref", "DESIGN.md section 5, " + pid)},
        "level_note": c["note"],
        "technique": c["technique"],
    })
na = [{"property_id": pid, "reason": reason} for pid, reason in sorted(NOT_APPLICABLE.items())]
ids = set(CLAIMED) | set(NOT_APPLICABLE)
allids = [json.loads(l)["id"] for l in open(os.path.join(VERIF, "properties.jsonl"))]
assert ids == set(allids), (sorted(set(allids) - ids), sorted(ids - set(allids)))
assert not (set(CLAIMED) & set(NOT_APPLICABLE))
m = {
    "version": 1,
    "setup_cmd": "cd /verif/checker && GOFLAGS=-mod=mod GOPROXY=off GOSUMDB=off GOTOOLCHAIN=local GOWORK=off go build -o /verif/bin/c4echeck .",
    "hooks": {"guard": "verif", "enable": "none needed: the checks read /repo's source; no hook or instrumentation is compiled into the repository",
              "baseline_off_cmd": BASELINE_CMD, "source_commits": [], "add_only": True},
    "engines": [{"name": "c4echeck", "path": "/verif/checker", "serves_properties": sorted(CLAIMED),
                 "kind_free_text": "repository-specific static analyser over go/packages + go/types + go/ssa (x/tools v0.29.0): role discovery, module call graph, effect atoms, edge-dominance guards, backward value slices, finite ordering abstraction"}],
    "checks": checks,
    "not_applicable": na,
    "notes": NOTES,
}
json.dump(m, open(os.path.join(VERIF, "MANIFEST.json"), "w"), indent=1)
print("MANIFEST.json: %d claimed, %d not applicable" % (len(checks), len(na)))
