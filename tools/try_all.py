#!/usr/bin/env python3
"""try_all.py <patch.diff> [-j N]: applies a patch to a scratch copy of /repo and runs all 20 quick checks on it (in parallel).
Prints every VIOLATED / UNDECIDED line; exit 0 when all pass. Used for behaviour-preserving refactorings (false-alarm hunting)."""
import subprocess, sys, os, tempfile, shutil, re, concurrent.futures
patch = os.path.abspath(sys.argv[1]); j = 6
if "-j" in sys.argv: j = int(sys.argv[sys.argv.index("-j") + 1])
ENV = dict(os.environ, GOFLAGS="-mod=mod", GOPROXY="off", GOSUMDB="off", GOTOOLCHAIN="local"); ENV.pop("GOWORK", None)
t = tempfile.mkdtemp(prefix="c4e-all-", dir="/tmp")
try:
    subprocess.run(["rsync", "-a", "--exclude", ".git", "--exclude", "ts-client", "--exclude", "vue", "/repo/", t + "/src/"], check=True)
    cp = subprocess.run(["patch", "-p1", "-s", "-i", patch], cwd=t + "/src", capture_output=True, text=True)
    if cp.returncode != 0:
        print("patch does not apply:", cp.stdout[-300:]); sys.exit(2)
    def run(p):
        o = subprocess.run([os.environ.get("C4E_BIN", "/verif/bin/c4echeck"), "-prop", p, "-tier", "quick", "-repo", t + "/src", "-verif", "/verif", "-out", t + "/out-" + p], capture_output=True, text=True, env=ENV)
        return p, o.returncode, o.stdout
    bad = 0
    with concurrent.futures.ThreadPoolExecutor(max_workers=j) as ex:
        for p, rc, out in ex.map(run, ["C%02d" % i for i in range(1, 21)]):
            if rc != 0:
                bad += 1
                lines = out.splitlines()
                for i, l in enumerate(lines):
                    if l.startswith("VIOLATED") or l.startswith("UNDECIDED"):
                        print(l[:260]); 
                        if i + 1 < len(lines): print(lines[i + 1][:400])
    print("%d of 20 checks alarmed" % bad)
    sys.exit(1 if bad else 0)
finally:
    shutil.rmtree(t, ignore_errors=True)
