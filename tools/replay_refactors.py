#!/usr/bin/env python3
"""Replays the stored behaviour-preserving refactorings (refactors/<tag>/patch.diff) on scratch copies of the repository:
every check must stay green on each of them (false-alarm regression).
usage: replay_refactors.py [-j N] [--prop Cxx] [--repo DIR] [--json FILE] [--quiet]"""
import argparse, json, os, shutil, subprocess, sys, glob, tempfile, concurrent.futures, re
ap = argparse.ArgumentParser()
ap.add_argument("-j", type=int, default=4)
ap.add_argument("--prop")
ap.add_argument("--repo", default="/repo")
ap.add_argument("--json")
ap.add_argument("--quiet", action="store_true")
a = ap.parse_args()
VERIF = os.path.dirname(os.path.dirname(os.path.abspath(__file__)))
ENV = dict(os.environ, GOFLAGS="-mod=mod", GOPROXY="off", GOSUMDB="off", GOTOOLCHAIN="local"); ENV.pop("GOWORK", None)
props = [a.prop] if a.prop else ["C%02d" % i for i in range(1, 21)]

def one(d):
    name = os.path.basename(d.rstrip("/"))
    t = tempfile.mkdtemp(prefix="c4e-rf-", dir=os.environ.get("VERIF_SCRATCH", "/tmp"))
    try:
        subprocess.run(["rsync", "-a", "--exclude", ".git", "--exclude", "ts-client", "--exclude", "vue", a.repo + "/", t + "/src/"], check=True)
        cp = subprocess.run(["patch", "-p1", "-s", "-i", os.path.join(d, "patch.diff")], cwd=t + "/src", capture_output=True, text=True)
        if cp.returncode != 0:
            return dict(id=name, status="skipped", why="patch does not apply to this tree", alarms=[])
        alarms = []
        for p in props:
            out = subprocess.run([os.environ.get("C4E_BIN", os.path.join(VERIF, "bin", "c4echeck")), "-prop", p, "-tier", "quick", "-repo", t + "/src", "-verif", VERIF, "-out", t + "/out-" + p], capture_output=True, text=True, env=ENV)
            if out.returncode != 0:
                alarms += sorted(set(re.findall(r"^(?:VIOLATED|UNDECIDED)\s+\S+\s+rule=(\S+)", out.stdout, re.M)))
        return dict(id=name, status="ok" if not alarms else "FAIL", why=("alarms: %s" % alarms) if alarms else "", alarms=alarms)
    finally:
        shutil.rmtree(t, ignore_errors=True)

dirs = [d for d in sorted(glob.glob(os.path.join(VERIF, "refactors", "*/"))) if os.path.exists(os.path.join(d, "patch.diff"))]
res = []
with concurrent.futures.ThreadPoolExecutor(max_workers=a.j) as ex:
    for r in ex.map(one, dirs):
        res.append(r)
        if not a.quiet or r["status"] == "FAIL":
            print("%-7s %-12s %s" % (r["status"], r["id"], r["why"]))
bad = [r for r in res if r["status"] == "FAIL"]
if not a.quiet:
    print("%d refactorings replayed, %d alarmed, %d skipped" % (len(res), len(bad), sum(r["status"] == "skipped" for r in res)))
if a.json:
    json.dump(res, open(a.json, "w"), indent=1)
sys.exit(1 if bad else 0)
