#!/bin/bash
# usage: try_seeded.sh <patch.diff> <prop> [<prop> ...] — applies a patch to a scratch copy of /repo (never to /repo) and runs the quick checks on it.
# BIN=<checker binary> uses that binary instead of ./check (for trying a development build of the checker).
set -u
patch="$(readlink -f "$1")"; shift
d=$(mktemp -d /tmp/c4e-try-XXXXXX)
rsync -a --exclude .git --exclude ts-client --exclude vue /repo/ "$d/src/"
(cd "$d/src" && patch -p1 -s < "$patch") || { echo "patch does not apply"; rm -rf "$d"; exit 2; }
for p in "$@"; do
  if [ -n "${BIN:-}" ]; then
    out=$("$BIN" -prop "$p" -tier quick -repo "$d/src" -verif /verif -out "$d/out" 2>&1)
  else
    out=$(VERIF_REPO="$d/src" VERIF_OUT="$d/out" /verif/check "$p" quick 2>&1)
  fi
  echo "$out" | grep -A1 "^VIOLATED\|^UNDECIDED" | grep -v "^--" | cut -c1-400
  echo "$out" | tail -1 | grep "^PASS"
done
rm -rf "$d"
