#!/bin/bash
# usage: scratch.sh <dir>   — fresh scratch copy of /repo's working tree (no .git, ts-client, vue) outside /repo and /verif
set -e
d=${1:-/tmp/c4e-scratch}
rm -rf "$d"; mkdir -p "$d"
rsync -a --exclude .git --exclude ts-client --exclude vue /repo/ "$d"/
echo "$d"
