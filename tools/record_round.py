#!/usr/bin/env python3
"""record_round.py <suffix> <round-number> [-j N]: for every stored seeded change seeded/C??<suffix>-*/ whose catch record is
still empty, applies the change to a scratch copy of /repo, runs all 20 quick checks on it and writes into meta.json which
rules report it (`caught_by`: the rules of the change's own property first, each with the first message; `also_reported_by`:
rules of other properties) and the round number. Nothing is written when no rule of the own property fires (a miss is
recorded by hand, after the checks were strengthened)."""
import subprocess, sys, os, tempfile, shutil, re, json, glob, concurrent.futures
suffix, rnd = sys.argv[1], int(sys.argv[2]); j = 6
if "-j" in sys.argv: j = int(sys.argv[sys.argv.index("-j") + 1])
VERIF = os.path.dirname(os.path.dirname(os.path.abspath(__file__)))
BIN = os.environ.get("C4E_BIN", os.path.join(VERIF, "bin", "c4echeck"))
ENV = dict(os.environ, GOFLAGS="-mod=mod", GOPROXY="off", GOSUMDB="off", GOTOOLCHAIN="local"); ENV.pop("GOWORK", None)

def one(d):
    name = os.path.basename(d.rstrip("/"))
    mp = os.path.join(d, "meta.json")
    m = json.load(open(mp))
    if m.get("caught_by"):
        return name, "already recorded"
    own = m["property"]
    t = tempfile.mkdtemp(prefix="c4e-rec-", dir="/tmp")
    try:
        subprocess.run(["rsync", "-a", "--exclude", ".git", "--exclude", "ts-client", "--exclude", "vue", "/repo/", t + "/src/"], check=True)
        cp = subprocess.run(["patch", "-p1", "-s", "-i", os.path.join(d, "patch.diff")], cwd=t + "/src", capture_output=True, text=True)
        if cp.returncode != 0:
            return name, "patch does not apply"
        fired = {}
        for i in range(1, 21):
            p = "C%02d" % i
            o = subprocess.run([BIN, "-prop", p, "-tier", "quick", "-repo", t + "/src", "-verif", VERIF, "-out", t + "/out-" + p], capture_output=True, text=True, env=ENV)
            lines = o.stdout.splitlines()
            for k, l in enumerate(lines):
                mm = re.match(r"(VIOLATED|UNDECIDED)\s+(\S+)\s+rule=(C\d\d\.\w+)\s+construct=\"(.*)\"", l)
                if mm and mm.group(3) not in fired:
                    detail = lines[k + 1].strip() if k + 1 < len(lines) else ""
                    fired[mm.group(3)] = "%s: %s" % (mm.group(4)[:100], detail[:160])
        mine = [r for r in sorted(fired) if r.startswith(own + ".")]
        other = [r for r in sorted(fired) if not r.startswith(own + ".")]
        if not mine:
            return name, "NOT REPORTED by a rule of %s (others: %s)" % (own, other)
        m["caught_by"] = ["%s (%s)" % (r, fired[r]) for r in mine]
        if other:
            m["also_reported_by"] = other
        m["round"] = rnd
        if "catch record pending" in m.get("notes", ""):
            m["notes"] = m["notes"].replace("; catch record pending", "").replace("catch record pending", "").strip()
            if not m["notes"] or m["notes"] == "round %d" % rnd:
                m.pop("notes")
        json.dump(m, open(mp, "w"), indent=1)
        return name, "recorded: " + ", ".join(mine) + ((" | also " + ", ".join(other)) if other else "")
    finally:
        shutil.rmtree(t, ignore_errors=True)

dirs = sorted(glob.glob(os.path.join(VERIF, "seeded", "C??%s-*/" % suffix)))
with concurrent.futures.ThreadPoolExecutor(max_workers=j) as ex:
    for name, res in ex.map(one, dirs):
        print("%-60s %s" % (name, res))
