#!/bin/bash
# usage: mkscratch.sh <patch.diff> <dir> — scratch copy of /repo's tree with the patch applied (for developing rules against it)
set -e
pf="$(readlink -f "$1")"
rm -rf "$2"; mkdir -p "$2"
rsync -a --exclude .git --exclude ts-client --exclude vue /repo/ "$2"/
(cd "$2" && patch -p1 -s < "$pf")
echo "$2"
