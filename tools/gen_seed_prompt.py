#!/usr/bin/env python3
"""gen_seed_prompt.py <round> <ID> [focus text]
Writes /tmp/tools/prompt<round>-<ID>.txt for a fresh sub-agent: only the property text (from properties.jsonl),
generic instructions, and its own scratch worktree /tmp/w<round>-<ID>. Nothing from /verif's checks is included."""
import json, sys, os
rnd, pid = sys.argv[1], sys.argv[2]
focus = sys.argv[3] if len(sys.argv) > 3 else ""
prop = None
for l in open("/verif/properties.jsonl"):
    d = json.loads(l)
    if d["id"] == pid:
        prop = d
wt = "/tmp/w%s-%s" % (rnd, pid)
files = ", ".join(prop["anchors"].get("files", []))
text = "  %s — %s\n\n  %s\n\n  Quantified over: %s\n\n  Relevant files: %s\n" % (pid, prop["title"], prop["statement"], prop["quantifier"]["text"], files)
os.makedirs("/tmp/tools", exist_ok=True)
open("/tmp/tools/prop-%s.txt" % pid, "w").write(text)
low = pid.lower()
p = f"""You are helping to test a verification tool by producing a realistic, subtle defect ("seeded change") in a Go codebase.

The codebase is the Chain4Energy Cosmos-SDK chain (module github.com/chain4energy/c4e-chain). You have your OWN scratch git worktree of it at {wt} — work ONLY there. Do NOT read or touch /repo, /verif or any other /tmp/w* directory (this matters: your work must be independent of what exists there).

Every shell command needs this environment (no network is available, nothing can be downloaded):
  export GOFLAGS=-mod=mod GOPROXY=off GOSUMDB=off GOTOOLCHAIN=local; unset GOWORK

The property to break (it also lists the relevant source files):

{text}

YOUR TASK: make ONE small source change (a few lines, in non-test .go files under {wt}) that BREAKS this property while
  (a) the repository still compiles (`go build ./...`), and
  (b) the existing test suite still passes: run `mkdir -p {wt}-tmp && TMPDIR={wt}-tmp python3 /tmp/tools/cmp_baseline.py {wt}; rm -rf {wt}-tmp` (takes several minutes; it runs `go test ./...` and compares with the 550 known-stable tests; it must print "now passing 550"; the private TMPDIR matters because other workers run the same suite concurrently - do NOT delete /tmp/chain4energy-e2e-testnet-test* yourself). Keep your demonstration test OUT of the package directories while running the baseline.
The change must be REALISTIC (something a developer could plausibly write in a refactoring, clean-up or feature commit) and SUBTLE: it must need something specific to manifest — a particular multi-step sequence of operations, a particular stored state or configuration, an unusual but valid input, a fault (a failing transfer) at a particular point, or two cooperating sites that each look fine alone. Do NOT produce a change that ordinary use or the existing tests would expose at once, and do not simply delete an obvious check if you can find something where the code still "looks right".
{("FOCUS for this round: " + focus) if focus else ""}

Then write a DEMONSTRATION: a new Go test file (use the package name of the neighbouring *_test.go files; look at the existing tests and at testutil/ for helpers such as testutil/app.SetupTestApp) that FAILS with your change and PASSES on the unchanged code. Verify both: run it with your change (must fail), then undo only the source change (`mkdir -p SEEDED; git diff -- <source files> > SEEDED/patch.diff; git checkout -- <source files>`), run it again (must pass), then re-apply the change (`git apply SEEDED/patch.diff`). Name the test(s) TestSeeded{pid}...

DELIVERABLES — when done, leave in {wt}:
  - the source change applied in the working tree (uncommitted), the demo test NOT left inside a package directory,
  - {wt}/SEEDED/patch.diff : `git diff` of the source change ONLY (not the demo test),
  - {wt}/SEEDED/demo_test.go : your demonstration test; its FIRST line must be a comment of the form `// Copy this file to <package dir relative to the repo root>/seeded_{low}_test.go and run: go test ./<package dir>/ -run TestSeeded{pid} -count=1`,
  - {wt}/SEEDED/meta.json : {{"property":"{pid}","what_breaks":"...","needs_to_manifest":"...","files_changed":[...],"baseline":"now passing 550 (or what you observed)","demo_fails_with_change":true,"demo_passes_without":true}}
Your final message should summarise the change (file, function, what you changed, why it breaks the property, what it needs to manifest) in a few sentences. Do not commit anything."""
open("/tmp/tools/prompt%s-%s.txt" % (rnd, pid), "w").write(p)
print("/tmp/tools/prompt%s-%s.txt" % (rnd, pid), wt)
