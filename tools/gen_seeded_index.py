#!/usr/bin/env python3
"""Writes seeded/INDEX.md from the meta.json files (catch record of the independent seeded changes)."""
import json, os, glob, re
rows = []
for d in sorted(glob.glob("/verif/seeded/*/")):
    mp = os.path.join(d, "meta.json")
    if not os.path.exists(mp):
        continue
    m = json.load(open(mp))
    rows.append((os.path.basename(d.rstrip("/")), m))
out = ["# Seeded changes — catch record", "",
       "Each directory holds one property-breaking change written by a fresh sub-agent that saw only the property text and its own",
       "scratch worktree of /repo (nothing from /verif): `patch.diff` (the change; it compiles and the 550 pinned tests still pass),",
       "`demo_test.go` (fails with the change, passes without — confirmed by me with `tools/confirm_seeded.sh`), `meta.json`.",
       "None of these changes is committed in /repo. To replay: `tools/try_seeded.sh seeded/<dir>/patch.diff <property ids>` (scratch copy),",
       "or `git -C /repo apply <patch>; ./check <id> quick; git -C /repo checkout -- .`.", "",
       "| directory | property | needs, to manifest | reported by | as the checks stood when it arrived |", "|---|---|---|---|---|"]
for name, m in rows:
    notes = m.get("notes", "")
    if notes.startswith("NOT reported"):
        status = "**not reported by a rule of its own property** — recorded limit"
    elif "MISSED" in notes or notes.startswith("missed on arrival"):
        status = "**missed** — rule added"
    elif notes.startswith("on arrival reported only by") or notes.startswith("reported only"):
        status = "caught under another property only — rule added / shared"
    elif re.search(r"only C\d\d\.\w+ reported", notes):
        status = "caught under another property only — rule shared"
    elif notes.startswith("The rules as they stood reported the change only because"):
        status = "reported for the wrong reason — rule reworked"
    else:
        status = "caught"
    need = m.get("needs_to_manifest", "").replace("\n", " ").replace("|", "/")
    if len(need) > 260:
        need = need[:257] + "..."
    out.append("| `%s` | %s | %s | %s | %s |" % (name, m["property"], need, "; ".join(m.get("caught_by", [])).replace("|", "/"), status))
n = len(rows)
missed = sum(("MISSED" in m.get("notes", "") or m.get("notes", "").startswith("missed on arrival")) for _, m in rows)
other = sum(m.get("notes", "").startswith("on arrival reported only by") for _, m in rows)
limits = sum(m.get("notes", "").startswith("NOT reported") for _, m in rows)
out += ["", "%d changes stored; %d were missed by the checks as they stood when the change arrived and led to new rules, %d more were reported only under a neighbouring property and led to a rule of their own property (see `notes` in their meta.json and DESIGN.md §7a); %d is recorded as a limit (reported by no rule of its own property); every other one is reported by a rule of its own property on the committed checks." % (n, missed, other, limits)]
open("/verif/seeded/INDEX.md", "w").write("\n".join(out) + "\n")
print("\n".join(out[-3:]))
