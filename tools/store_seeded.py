#!/usr/bin/env python3
"""store_seeded.py <ID> <slug> <caught_by ; separated> [notes]
Copies $WT<ID>/SEEDED (default WT=/tmp/wt-) into /verif/seeded/<ID>$SUFFIX-<slug>/ and completes meta.json."""
import json, os, shutil, sys
pid, slug, caught = sys.argv[1], sys.argv[2], sys.argv[3]
notes = sys.argv[4] if len(sys.argv) > 4 else ""
src = os.environ.get("WT", "/tmp/wt-") + pid + "/SEEDED"
dst = "/verif/seeded/%s%s-%s" % (pid, os.environ.get("SUFFIX", ""), slug)
os.makedirs(dst, exist_ok=True)
for f in ("patch.diff", "demo_test.go"):
    shutil.copy(os.path.join(src, f), os.path.join(dst, f))
m = json.load(open(os.path.join(src, "meta.json")))
m["origin"] = "written by a sub-agent that was given only the property text and its own scratch worktree (nothing from /verif)"
m["confirmed_by_me"] = "tools/confirm_seeded.sh in the agent's scratch worktree: go build ok; demo test exit=1 with the change, exit=0 without; cmp_baseline.py: stable_pass total 550 now passing 550; then tools/try_seeded.sh <patch> <props> (scratch copy of /repo, quick checks)"
m["caught_by"] = [c.strip() for c in caught.split(";") if c.strip()]
if notes:
    m["notes"] = notes
json.dump(m, open(os.path.join(dst, "meta.json"), "w"), indent=1)
print("stored", dst)
