#!/usr/bin/env python3
"""gen_refactor_prompt.py <tag> <files, comma separated> [style hint] : prompt for a sub-agent that writes a behaviour-PRESERVING
refactoring (used to look for false alarms of the checks). Worktree /tmp/rf-<tag>."""
import sys
tag, files = sys.argv[1], sys.argv[2]
style = sys.argv[3] if len(sys.argv) > 3 else ""
wt = "/tmp/rf-" + tag
p = f"""You are helping to test a static verification tool by producing a realistic, behaviour-PRESERVING refactoring of a Go codebase (the tool must stay silent on it).

The codebase is the Chain4Energy Cosmos-SDK chain (module github.com/chain4energy/c4e-chain). You have your OWN scratch git worktree of it at {wt} — work ONLY there. Do NOT read or touch /repo, /verif or any other directory under /tmp except /tmp/tools.

Every shell command needs this environment (no network is available, nothing can be downloaded):
  export GOFLAGS=-mod=mod GOPROXY=off GOSUMDB=off GOTOOLCHAIN=local; unset GOWORK

YOUR TASK: write ONE refactoring commit's worth of changes (roughly 30-120 changed lines) to these non-test files: {files}
It must be the kind of clean-up a maintainer would really make: extract or inline local variables and small helper functions, rename locals and parameters, restructure control flow (early returns instead of nested else, inverted conditions, merged or split conditions, switch instead of if-chains), reorder statements that are independent of each other, replace a hand-written comparison by an equivalent library call or vice versa, hoist or sink computations where that is provably equivalent, tidy error wrapping without changing which errors are returned, etc. Mix several of these.
{("STYLE for this commit: " + style) if style else ""}
HARD REQUIREMENT: the observable behaviour must be EXACTLY the same for every input and every stored state, not only for the tested ones: same state writes in the same order, same coins moved, same events with the same contents, same errors returned in the same situations (the error text may differ only where you deliberately improve wording - avoid that), same panics / no new panics, same results of queries. Do not fix bugs, do not add validation, do not change numeric results, do not change which store keys are used. Keep all exported function and method names and signatures that other packages use. If you are not sure a transformation is exactly equivalent, do not make it.
  (a) the repository must still compile (`go build ./...`), and
  (b) the existing test suite must still pass: run `mkdir -p {wt}-tmp && TMPDIR={wt}-tmp python3 /tmp/tools/cmp_baseline.py {wt}; rm -rf {wt}-tmp` (takes several minutes; it must print "now passing 550"; the private TMPDIR matters because other workers run the same suite concurrently - do NOT delete /tmp/chain4energy-e2e-testnet-test* yourself).

DELIVERABLES — when done, leave in {wt}:
  - the change applied in the working tree (uncommitted),
  - {wt}/REFACTOR/patch.diff : `git diff` of the source change,
  - {wt}/REFACTOR/notes.md : a list of the individual transformations you made (one line each: where, what, why it is exactly equivalent).
Your final message should summarise the transformations in a few sentences. Do not commit anything."""
open("/tmp/tools/prompt-rf-%s.txt" % tag, "w").write(p)
print("/tmp/tools/prompt-rf-%s.txt" % tag, wt)
