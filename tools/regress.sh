#!/bin/bash
# usage: regress.sh [-j N] — development regression: every quick check on /repo's tree must pass, every stored seeded change
# must still be reported by the rules recorded for it, every stored refactoring must stay silent.
cd "$(dirname "$0")/.."
export GOFLAGS=-mod=mod GOPROXY=off GOSUMDB=off GOTOOLCHAIN=local; unset GOWORK
j=6; [ "$1" = "-j" ] && j=$2
mkdir -p /tmp/c4e-regress-bin; (cd checker && go build -o /tmp/c4e-regress-bin/c4echeck.$$ .) || exit 2
export C4E_BIN=/tmp/c4e-regress-bin/c4echeck.$$
rc=0
for i in $(seq -w 1 20); do
  out=$($C4E_BIN -prop C$i -tier quick -repo /repo -verif "$(pwd)" -out /tmp/c4e-regress-out 2>&1) || { rc=1; echo "$out" | grep -A1 "^VIOLATED\|^UNDECIDED" | cut -c1-400; }
done
rm -rf /tmp/c4e-regress-out
echo "== unchanged tree done rc=$rc"
python3 tools/replay_seeded.py -j $j --quiet || rc=1
echo "== seeded replay done"
python3 tools/replay_refactors.py -j $j --quiet || rc=1
echo "== refactor replay done rc=$rc"
if [ "$MATRIX" = "1" ]; then python3 selftest/run.py --jobs $j --quiet || rc=1; echo "== variant matrix done rc=$rc"; fi
rm -f $C4E_BIN
exit $rc
