#!/bin/bash
# usage: confirm_round.sh <worktree prefix e.g. /tmp/w2-> <ID>...   (sequential; package dir is parsed from the demo's first line)
pre="$1"; shift
for id in "$@"; do
  wt="$pre$id"
  pkg=$(head -1 "$wt/SEEDED/demo_test.go" | sed -n 's|.*Copy this file to \(.*\)/seeded_[a-z0-9_]*_test.go.*|\1|p')
  /verif/tools/confirm_seeded.sh "$wt" "$pkg" "TestSeeded$id" 2>&1 | tail -2
done
