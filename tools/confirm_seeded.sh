#!/bin/bash
# usage: confirm_seeded.sh <worktree> <package dir relative> <test regex>
# Confirms a seeded change in its scratch worktree: builds, the demo fails with the change and passes without,
# the 550 stable tests still pass with the change. Leaves the change applied.
set -u
export GOFLAGS=-mod=mod GOPROXY=off GOSUMDB=off GOTOOLCHAIN=local; unset GOWORK
wt="$1"; pkg="$2"; re="$3"
cd "$wt" || exit 2
git checkout -q -- . 2>/dev/null; git apply SEEDED/patch.diff || { echo "CONFIRM apply failed"; exit 2; }
go build ./... || { echo "CONFIRM build failed"; exit 2; }
cp SEEDED/demo_test.go "$pkg/zz_seeded_demo_test.go"
go test "./$pkg/" -run "$re" -count=1 >/tmp/confirm_with.txt 2>&1; with=$?
git apply -R SEEDED/patch.diff
go test "./$pkg/" -run "$re" -count=1 >/tmp/confirm_without.txt 2>&1; without=$?
git apply SEEDED/patch.diff
rm -f "$pkg/zz_seeded_demo_test.go"
python3 /tmp/tools/cmp_baseline.py "$wt" > /tmp/confirm_baseline.txt 2>&1; rm -rf /tmp/chain4energy-e2e-testnet-test*
echo "CONFIRM $(basename $wt): demo_with_change_exit=$with demo_without_exit=$without baseline=$(head -1 /tmp/confirm_baseline.txt)"
