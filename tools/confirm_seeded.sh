#!/bin/bash
# usage: confirm_seeded.sh <worktree> <package dir relative> <test regex>
# Confirms a seeded change in its scratch worktree: builds, the demo fails with the change and passes without,
# the 550 stable tests still pass with the change. Leaves the change applied.
set -u
export GOFLAGS=-mod=mod GOPROXY=off GOSUMDB=off GOTOOLCHAIN=local; unset GOWORK
wt="$1"; pkg="$2"; re="$3"
cd "$wt" || exit 2
git checkout -q -- . 2>/dev/null; git apply SEEDED/patch.diff || { echo "CONFIRM apply failed"; exit 2; }
go build ./... || { echo "CONFIRM build failed"; exit 2; }
cp SEEDED/demo_test.go "$pkg/zz_seeded_demo_test.go"
# private scratch directory: several confirmations may run side by side
priv="$wt-confirm-tmp"; rm -rf "$priv"; mkdir -p "$priv"
TMPDIR="$priv" go test "./$pkg/" -run "$re" -count=1 >"$priv/with.txt" 2>&1; with=$?
git apply -R SEEDED/patch.diff
TMPDIR="$priv" go test "./$pkg/" -run "$re" -count=1 >"$priv/without.txt" 2>&1; without=$?
git apply SEEDED/patch.diff
rm -f "$pkg/zz_seeded_demo_test.go"
# SEEDED/ holds a demo test file: keep it out of `go test ./...`
mv SEEDED "$priv/SEEDED"
TMPDIR="$priv" python3 /tmp/tools/cmp_baseline.py "$wt" > "$priv/baseline.txt" 2>&1
mv "$priv/SEEDED" SEEDED
echo "CONFIRM $(basename $wt): demo_with_change_exit=$with demo_without_exit=$without baseline=$(head -1 "$priv/baseline.txt")"
rm -rf "$priv"
