# Table from which tools/gen_manifest.py writes MANIFEST.json.
BASELINE_CMD = "cd /repo && GOFLAGS=-mod=mod go test -json -vet=off -count=1 -timeout 25m ./..."
NOTES = ("Family: static analysis only. Every check is `./check <ID> quick|thorough`, which rebuilds the analyser if its sources changed and "
         "analyses /repo's current working tree (go/packages + go/types + go/ssa); nothing of the chain is executed. All claims are at level "
         "'other': structural obligations decided exhaustively over the loaded program; the numeric clauses of each property are listed as "
         "undecided in DESIGN.md section 5 and in each evidence file. No hooks are compiled into /repo.")
_TODO = "check under construction in this session (design in DESIGN.md section 5); not claimed until its rules run green on the tree and fire on their seeded variants"
CLAIMED = {
 "C13": dict(
    text="All clauses of C13 are structural and are decided for every signer, payload and history at once: each of the 7 governance handlers reaches state effects only through the authority==msg.Authority edge (edge-dominance on the SSA CFG, lifted one call down by parameter mapping) and rejects with an error otherwise; the authority is the gov module address (single writer, from init); every write of a ParamsKey in handlers, genesis and migrations is dominated by the nil edge of Validate() on the stored value; minter parameter writes are dominated by ContainsMinter(current SequenceId); the vesting denom write by the no-pools edge.",
    note="Trusted: go/types+go/ssa (x/tools v0.29.0); baseapp discards the writes of a handler that returns an error; Validate() itself encodes the module's validation rules (its content is not judged). Not covered: parameter writes performed by code outside the module packages.",
    technique="edge-dominance (must-pass-through) on SSA CFG + interprocedural parameter mapping + value-origin slices"),
}
NOT_APPLICABLE = {p: _TODO for p in ["C01","C02","C03","C04","C05","C06","C07","C08","C09","C10","C11","C12","C14","C15","C16","C17","C18","C19","C20"]}
