# Table from which tools/gen_manifest.py writes MANIFEST.json.
BASELINE_CMD = "cd /repo && GOFLAGS=-mod=mod go test -json -vet=off -count=1 -timeout 25m ./..."
NOTES = ("Family: static analysis only. Every check is `./check <ID> quick|thorough`, which rebuilds the analyser if its sources changed and "
         "analyses /repo's current working tree (go/packages + go/types + go/ssa); nothing of the chain is executed. All claims are at level "
         "'other': structural obligations decided exhaustively over the loaded program; the numeric clauses of each property are listed as "
         "undecided in DESIGN.md section 5 and in each evidence file. No hooks are compiled into /repo.")
_TODO = "check under construction in this session (design in DESIGN.md section 5); not claimed until its rules run green on the tree and fire on their seeded variants"
CLAIMED = {
 "C13": dict(
    text="All clauses of C13 are structural and are decided for every signer, payload and history at once: each of the 7 governance handlers reaches state effects only through the authority==msg.Authority edge (edge-dominance on the SSA CFG, lifted one call down by parameter mapping) and rejects with an error otherwise; the authority is the gov module address (single writer, from init); every write of a ParamsKey in handlers, genesis and migrations is dominated by the nil edge of Validate() on the stored value; minter parameter writes are dominated by ContainsMinter(current SequenceId); the vesting denom write by the no-pools edge.",
    note="Trusted: go/types+go/ssa (x/tools v0.29.0); baseapp discards the writes of a handler that returns an error; Validate() itself encodes the module's validation rules (its content is not judged). Not covered: parameter writes performed by code outside the module packages.",
    technique="edge-dominance (must-pass-through) on SSA CFG + interprocedural parameter mapping + value-origin slices"),
}
CLAIMED["C01"] = dict(
    text="Decides who can change supply and with which values: BANK.mint/BANK.burn atoms are enumerated over the whole module and must be reachable only from the cfeminter resp. cfedistributor block routine and from no message, query, ValidateBasic, genesis, migration, upgrade or invariant entry (module call graph with CHA on module interfaces); the vesting/signature keeper interfaces cannot mint, burn or delegate; in the minting routine one mint per activation, the coins minted = coins forwarded = amount book-kept (value identity on SSA), module names cfeminter -> distributor main account (constant resolution through wrappers and app.New), book-keeping only on the success edges; the burn is under State.Burn, burns TruncateDecimal()#0 of that state's remains from the main account and stores #1 of the same call only on success.",
    note="Undecided: the arithmetic value of the minted/burned amounts and bank's supply==sum(balances) (trusted). Call graph: static callees, closures, function values by signature, CHA over module types; SDK callees are leaves classified by name+signature.",
    technique="who-may-call over module call graph + value identity on SSA + edge-dominance")
NOT_APPLICABLE = {p: _TODO for p in ["C02","C03","C04","C05","C06","C07","C08","C09","C10","C11","C12","C14","C15","C16","C17","C18","C19","C20"]}
