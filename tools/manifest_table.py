# Table from which tools/gen_manifest.py writes MANIFEST.json.
BASELINE_CMD = "cd /repo && GOFLAGS=-mod=mod go test -json -vet=off -count=1 -timeout 25m ./..."
NOTES = ("Family: static analysis only. Every check is `./check <ID> quick|thorough`, which rebuilds the analyser if its sources changed and "
         "analyses /repo's current working tree (go/packages + go/types + go/ssa); nothing of the chain is executed. All claims are at level "
         "'other': structural obligations decided exhaustively over the loaded program; the numeric clauses of each property are listed as "
         "undecided in DESIGN.md section 5 and in each evidence file. No hooks are compiled into /repo.")
_TODO = "check under construction in this session (design in DESIGN.md section 5); not claimed until its rules run green on the tree and fire on their seeded variants"
CLAIMED = {
 "C13": dict(
    text="All clauses of C13 are structural and are decided for every signer, payload and history at once: each of the 7 governance handlers reaches state effects only through the authority==msg.Authority edge (edge-dominance on the SSA CFG, lifted one call down by parameter mapping) and rejects with an error otherwise; the authority is the gov module address (single writer, from init); every write of a ParamsKey in handlers, genesis and migrations is dominated by the nil edge of Validate() on the stored value; minter parameter writes are dominated by ContainsMinter(current SequenceId); the vesting denom write by the no-pools edge.",
    note="Trusted: go/types+go/ssa (x/tools v0.29.0); baseapp discards the writes of a handler that returns an error; Validate() itself encodes the module's validation rules (its content is not judged). Not covered: parameter writes performed by code outside the module packages.",
    technique="edge-dominance (must-pass-through) on SSA CFG + interprocedural parameter mapping + value-origin slices"),
}
CLAIMED["C01"] = dict(
    text="Decides who can change supply and with which values: BANK.mint/BANK.burn atoms are enumerated over the whole module and must be reachable only from the cfeminter resp. cfedistributor block routine and from no message, query, ValidateBasic, genesis, migration, upgrade or invariant entry (module call graph with CHA on module interfaces); the vesting/signature keeper interfaces cannot mint, burn or delegate; in the minting routine one mint per activation, the coins minted = coins forwarded = amount book-kept (value identity on SSA), module names cfeminter -> distributor main account (constant resolution through wrappers and app.New), book-keeping only on the success edges; the burn is under State.Burn, burns TruncateDecimal()#0 of that state's remains from the main account and stores #1 of the same call only on success.",
    note="Undecided: the arithmetic value of the minted/burned amounts and bank's supply==sum(balances) (trusted). Call graph: static callees, closures, function values by signature, CHA over module types; SDK callees are leaves classified by name+signature.",
    technique="who-may-call over module call graph + value identity on SSA + edge-dominance")
CLAIMED["C05"] = dict(
    text="Pairing of ledger and bank, decided on every path: every writer of VestingPool.{InitiallyLocked,Sent,Withdrawn} and of the pools store prefix is enumerated and classified by the entry set that reaches it; each keeper operation that changes a ledger field has a bank transfer with the cfevesting module constant, in the matching direction, carrying the same SSA value (or its per-pool accumulator), and persists only on the transfer's success edge (or where the amount is not positive); every outflow is paired; Sent grows only where currentlyLocked>=amount (ordering table) and amount is validated non-negative; all bank/keeper errors on vesting message trees are tested and their failure edge returns an error; InitGenesis persists pools only after the solvency comparison succeeded.",
    note="Undecided: nothing numeric beyond value identity. 'A rejected message changes nothing' relies on baseapp's rollback (trusted) plus C05.errprop. Solvency of genesis files relies on ValidateAccountsOnGenesis's comparison (presence and fatality checked, arithmetic trusted).",
    technique="effect enumeration + value identity on SSA + success-edge dominance + ordering abstraction")
CLAIMED["C06"] = dict(
    text="The time lock is a comparison-only function and is decided over the three orderings of (now, LockEnd): before => zero, equal/after => pool.GetCurrentlyLocked(); query and withdrawal call that same oracle with ctx.BlockTime() and the stored pool; the only module->account outflows are the withdrawal (sum of oracle results) and the transfer to an account created as a continuous vesting account on the same path.",
    note="'Pays exactly the remainder / a repeated withdrawal pays zero' is C05.pair's value identity (Withdrawn is persisted). SDK time semantics trusted.",
    technique="finite ordering abstraction over SSA CFG + sibling agreement + success-edge dominance")
CLAIMED["C07"] = dict(
    text="Structural clauses of split/move: recipient gets the very Coins unlocked, the sender's EndTime and max(now, sender start) (ordering table); the transfer carries the same Coins between the same addresses, chained on success edges; the sender's account is stored only behind amount.IsAllLTE(LockedCoins(blockTime)) and the ContinuousVestingAccount type test; only OriginalVesting is written, by subtraction from itself; the move handlers pass LockedCoins(from) (restricted to msg.Denoms).",
    note="NOT decided: exactness of the OriginalVesting reduction, the rounding bound (incl. the known one-unit excess above ~2e18), unchanged spendable balance, combined locked amounts over time: arithmetic over the SDK vesting formula.",
    technique="value identity on SSA + ordering abstraction + edge-dominance")
CLAIMED["C08"] = dict(
    text="Structural clauses: the amount added to Sent, passed to account creation and transferred are one SSA value; original vesting depends on amount and Free through TruncateInt only (no rounding-up operator), the transfer is independent of Free; restart => (start,end) originate from block time + LockupPeriod (+ VestingPeriod for end), no restart => both pool.LockEnd; account start = max(lockEnd, now) by ordering table; direct creation forwards the message's coins, start and end unchanged; the stored account is ContinuousVestingAccount(NewAccountWithAddress(to), originalVesting, start, end) of the parameters.",
    note="NOT decided: the numeric value floor(amount*(1-free)). 'Brand-new account' is C09.fresh. Parameters are identified by type and position, not by name.",
    technique="value-origin slices + ordering abstraction + edge-dominance on restart flag")
CLAIMED["C17"] = dict(
    text="Single-step lineage rule decided structurally: pool send appends (recipient, Genesis=false, FromGenesisAccount=false, FromGenesisPool=flag of the debited pool) only on success; split appends only when the sender is traced, inheriting FromGenesisPool and FromGenesisAccount = Genesis||FromGenesisAccount (truth table over the short-circuit CFG); no other trace writer is reachable from a message; summary literal: all=accounts+pools, delegated=vesting-locked in this order, sums over GetVestingCoins/LockedCoins at block time, genesis variant filtered by the three-flag predicate (8-row truth table) and GetGenesisAmount (genesis pools only).",
    note="NOT decided: numeric equality with recomputation from bank state; lineage over chains follows by induction from the single step and is not explored as histories.",
    technique="composite-literal field correspondence + boolean truth tables over SSA CFG + who-may-write")
CLAIMED["C18"] = dict(
    text="Value identity between each amount-carrying event and the effect it describes, for all 8 emit sites: Mint <- result of Keeper.Mint (which returns mint()'s total or zero); Distribution/DistributionBurn <- the share credited in the same iteration; WithdrawAvailable <- the per-pool value added to Withdrawn, recorded only under a positivity test of that value; pool-send and pool-creation events <- the amount sent/locked, built only on success edges.",
    note="NOT decided: that a block's distribution and burn events add up to the inflow (sum identity). Defect F1 (running total in withdrawal events) was found by this rule and repaired (fix: ec70f1a).",
    technique="value identity on SSA (event field vs effect operand) + edge-dominance")
import json as _json, os as _os
_ALL = [_json.loads(l)["id"] for l in open(_os.path.join(VERIF, "properties.jsonl"))]
NOT_APPLICABLE = {p: _TODO for p in _ALL if p not in CLAIMED}
