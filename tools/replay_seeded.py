#!/usr/bin/env python3
"""Replays stored seeded changes against the checks (scratch copies of the repository, quick tier) and verifies that
the rules recorded in each meta.json `caught_by` still report the change.
usage: replay_seeded.py [-j N] [--prop Cxx] [--repo DIR] [--json FILE] [name-substring]
 --prop Cxx : only the seeds for which a rule of Cxx is recorded, and only Cxx's rules are required / run."""
import argparse, json, os, re, shutil, subprocess, sys, glob, tempfile, concurrent.futures
ap = argparse.ArgumentParser()
ap.add_argument("-j", type=int, default=4)
ap.add_argument("--prop")
ap.add_argument("--repo", default="/repo")
ap.add_argument("--json")
ap.add_argument("--quiet", action="store_true")
ap.add_argument("sel", nargs="?", default="")
a = ap.parse_args()
VERIF = os.path.dirname(os.path.dirname(os.path.abspath(__file__)))
ENV = dict(os.environ, GOFLAGS="-mod=mod", GOPROXY="off", GOSUMDB="off", GOTOOLCHAIN="local")
ENV.pop("GOWORK", None)

def one(d):
    name = os.path.basename(d.rstrip("/"))
    m = json.load(open(os.path.join(d, "meta.json")))
    rules = sorted(set(re.findall(r"C\d\d\.\w+", " ".join(m.get("caught_by", [])))))
    if a.prop:
        rules = [r for r in rules if r.startswith(a.prop + ".")]
    if not rules:
        return None
    props = sorted(set(r.split(".")[0] for r in rules))
    t = tempfile.mkdtemp(prefix="c4e-replay-", dir=os.environ.get("VERIF_SCRATCH", "/tmp"))
    try:
        subprocess.run(["rsync", "-a", "--exclude", ".git", "--exclude", "ts-client", "--exclude", "vue", a.repo + "/", t + "/src/"], check=True)
        cp = subprocess.run(["patch", "-p1", "-s", "-i", os.path.join(d, "patch.diff")], cwd=t + "/src", capture_output=True, text=True)
        if cp.returncode != 0:
            return dict(id=name, status="skipped", why="patch does not apply to this tree", rules=rules, fired=[])
        fired = set()
        for p in props:
            out = subprocess.run([os.environ.get("C4E_BIN", os.path.join(VERIF, "bin", "c4echeck")), "-prop", p, "-tier", "quick", "-repo", t + "/src", "-verif", VERIF, "-out", t + "/out"],
                                 capture_output=True, text=True, env=ENV)
            fired |= set(re.findall(r"rule=(C\d\d\.\w+)", out.stdout))
        missing = [r for r in rules if r not in fired]
        return dict(id=name, status="ok" if not missing else "FAIL", why=("not reported: %s" % missing) if missing else "", rules=rules, fired=sorted(fired))
    finally:
        shutil.rmtree(t, ignore_errors=True)

dirs = [d for d in sorted(glob.glob(os.path.join(VERIF, "seeded", "*/"))) if a.sel in d and os.path.exists(os.path.join(d, "meta.json"))]
res = []
with concurrent.futures.ThreadPoolExecutor(max_workers=a.j) as ex:
    for r in ex.map(one, dirs):
        if r is None:
            continue
        res.append(r)
        if not a.quiet or r["status"] == "FAIL":
            print("%-7s %-52s expected %s fired %s %s" % (r["status"], r["id"], r["rules"], r["fired"], r["why"]))
bad = [r for r in res if r["status"] == "FAIL"]
if not a.quiet:
    print("%d seeded changes replayed, %d not reported as recorded, %d skipped" % (len(res), len(bad), sum(r["status"] == "skipped" for r in res)))
if a.json:
    json.dump(res, open(a.json, "w"), indent=1)
sys.exit(1 if bad else 0)
