#!/usr/bin/env python3
"""Replays every stored seeded change against the committed checks (scratch copies of /repo, quick tier) and
verifies that the rules recorded in its meta.json `caught_by` still report it. usage: replay_seeded.py [-j N] [name-substring]"""
import json, os, re, subprocess, sys, glob, concurrent.futures
jobs = 4
args = sys.argv[1:]
if args and args[0] == "-j":
    jobs = int(args[1]); args = args[2:]
sel = args[0] if args else ""
def one(d):
    m = json.load(open(os.path.join(d, "meta.json")))
    rules = sorted(set(re.findall(r"C\d\d\.\w+", " ".join(m.get("caught_by", [])))))
    props = sorted(set(r.split(".")[0] for r in rules))
    cp = subprocess.run(["/verif/tools/try_seeded.sh", os.path.join(d, "patch.diff")] + props, capture_output=True, text=True)
    fired = sorted(set(re.findall(r"rule=(C\d\d\.\w+)", cp.stdout)))
    missing = [r for r in rules if r not in fired]
    return os.path.basename(d.rstrip("/")), rules, fired, missing
dirs = [d for d in sorted(glob.glob("/verif/seeded/*/")) if sel in d]
bad = 0
with concurrent.futures.ThreadPoolExecutor(max_workers=jobs) as ex:
    for name, rules, fired, missing in ex.map(one, dirs):
        st = "ok" if not missing and rules else "FAIL"
        if st == "FAIL":
            bad += 1
        print("%-5s %-50s expected %s fired %s" % (st, name, rules, fired))
print("%d seeded changes replayed, %d not reported as recorded" % (len(dirs), bad))
sys.exit(1 if bad else 0)
